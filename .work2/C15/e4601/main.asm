.import * from "inc.asm"
.if 0 {
  .word c  // c "c"
  .if 0 {
    .word c  // c "c"
    .word c  // c "c"
  }
}
.word a  // b "b"
.word a  // b "b"
.word a  // b "b"
.const a = 7
