.macro zz4(p) {
  .word p  // p "p"
}
.macro n(p) {
  .word p  // p "p"
}
s: {
  .const y = 12
  zz4(2)
  .word y  // y "y"
}
.const x = 21
.if 1 {
  n(2)
  .word s.y  // s.y "y"
} else {
  zz4(2)
  .word x  // x "x"
}
zz4(2)
