zz2: {
  b: {
    .word zz2.a  // b.a "a"
  }
  a: nop
  .word b  // b "b"
}
a: nop
.word a  // a "a"
