.macro m(p) {
  .word p  // p "p"
}
.macro zz3(p) {
  .word p  // p "p"
}
s: {
  .const y = 12
  m(2)
  .word y  // y "y"
}
.const x = 21
.if 0 {
  zz3(2)
  .word x  // x "x"
} else {
  zz3(2)
  .word x  // x "x"
}
m(2)
