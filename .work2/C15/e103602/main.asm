a: {
  zz8: {
    .word super.zz8  // super.a "a"
  }
  b: nop
  .word b  // b "b"
}
b: nop
.word a.b  // a.b "b"
