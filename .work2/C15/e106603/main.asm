.macro m(p) {
  .word p  // p "p"
}
.macro n(p) {
  .word p  // p "p"
}
s: {
  .const c = 12
  m(2)
  .word c  // y "y"
}
.const x = 21
.if 1 {
  m(2)
  .word s.c  // s.y "y"
} else {
  m(2)
  .word x  // x "x"
}
m(2)
