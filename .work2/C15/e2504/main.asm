.macro m(p, q) {
  .word p  // p "p"
}
.macro zz9(q) {
  .word q  // q "q"
}
.const b = 9
a: nop
.word b  // b "b"
.word b  // b "b"
{
  .word super.b  // super.b "b"
}
m(2, 2)
zz9(2)
