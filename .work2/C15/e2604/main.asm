.import * from "inc.asm"
.word c  // c "c"
.if 0 {
  .word b  // b "b"
  .word c  // c "c"
}
c: {
  .if 0 {
    .word super.c  // super.c "c"
  }
  c: nop
}
b: {
  .word zz2  // b "b"
  zz2: {
    a: nop
    .word b.zz2.a  // b.b.a "a"
    b: nop
  }
}
