b: {
  b: {
    .word super.c  // super.a "a"
  }
  c: nop
  .word super.a  // super.a "a"
}
a: nop
.word a  // a "a"
