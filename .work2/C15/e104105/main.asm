b: {
  b: {
    .word b.c  // b.a "a"
  }
  c: nop
  .word b  // b "b"
}
a: nop
.word a  // a "a"
