.word a  // a "a"
