.import * from "inc.asm"
a: {
  .if 0 {
    .word a.zz1  // a.b "b"
    .word zz1  // b "b"
  }
  .const zz1 = 4
  .word super.a  // super.a "a"
}
.if 0 {
  .if 0 {
    .word a  // a "a"
    .word a.zz1  // a.b "b"
  } else {
    .word a.zz1  // a.b "b"
    .word a.zz1  // a.b "b"
  }
}
.word a.zz1  // a.b "b"
