a: {
  zz5: {
    .word super.zz5  // super.b "b"
  }
  a: nop
  .word a.a  // a.a "a"
}
b: nop
.word a  // a "a"
