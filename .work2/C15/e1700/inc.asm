.const b = 2
