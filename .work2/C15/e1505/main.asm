.macro m(a) {
  .word a  // p "p"
}
.macro n(q) {
  .word q  // q "q"
  .word q  // q "q"
}
.word b  // b "b"
.const c = 9
.const b = 10
a: {
  b: {
    .const m = 13
  }
  {
    .word m  // m "m"
  }
  a: {
    .word m  // m "m"
    .const c = 15
  }
}
.if 0 {
  n(5)
}
m(5)
