c: {
  a: {
    .word a  // a "a"
  }
  b: nop
  .word super.c  // super.b "b"
}
a: nop
.word c.a  // b.a "a"
