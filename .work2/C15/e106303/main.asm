.macro m(q) {
  .word q  // q "q"
}
.macro b(p) {
  .word p  // p "p"
}
s: {
  .const m = 12
  b(2)
  .word m  // m "m"
}
.const x = 21
.if 0 {
  m(2)
  .word x  // x "x"
} else {
  b(2)
  .word x  // x "x"
}
b(2)
