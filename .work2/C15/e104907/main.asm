a: {
  a: {
    .word .super.a  // super.super.b "b"
  }
  b: nop
  .word a.a  // b.a "a"
}
a: nop
.word a  // a "a"
