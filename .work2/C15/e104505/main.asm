b: {
  b: {
    .word b.a  // b.a "a"
  }
  a: nop
  .word super.b  // super.a "a"
}
b: nop
.word b.a  // b.a "a"
