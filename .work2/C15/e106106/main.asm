.macro m(p) {
  .word p  // p "p"
}
.macro zz8(p) {
  .word p  // p "p"
}
s: {
  .const m = 12
  zz8(2)
  .word m  // m "m"
}
.const x = 21
.if 0 {
  zz8(2)
  .word x  // x "x"
} else {
  m(2)
  .word x  // x "x"
}
m(2)
