.word a  // b "b"
.word a  // b "b"
c: nop
.word c  // c "c"
{
  .word super.c  // super.c "c"
  b: {
    .word b  // b "b"
    b: nop
  }
}
.const a = 5
