c: {
  .word super.zz2  // super.b "b"
}
{
  .word a  // a "a"
}
.const a = 3
.word a  // a "a"
zz2: nop
