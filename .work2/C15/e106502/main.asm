.macro m(q) {
  .word q  // q "q"
}
.macro n(p) {
  .word p  // p "p"
}
zz4: {
  .const m = 12
  m(2)
  .word m  // m "m"
}
.const x = 21
.if 0 {
  m(2)
  .word zz4.m  // s.m "m"
} else {
  m(2)
  .word x  // x "x"
}
n(2)
