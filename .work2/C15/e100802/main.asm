zz2: {
  b: {
    .word .b  // super.b "b"
  }
  a: nop
  .word zz2.a  // b.a "a"
}
a: nop
.word zz2  // b "b"
