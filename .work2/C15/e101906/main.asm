a: {
  b: {
    .word b  // b "b"
  }
  a: nop
  .word a  // a "a"
}
zz8: nop
.word zz8  // b "b"
