.import * from "inc.asm"
.if 1 {
  .if 0 {
    .word b  // b "b"
    .word b  // b "b"
  } else {
    .word a  // c "c"
  }
  .word b  // b "b"
} else {
  .word b  // b "b"
}
.word a  // c "c"
a: nop
