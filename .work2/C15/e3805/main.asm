.macro m(p) {
  .word p  // p "p"
  .word p  // p "p"
}
.macro n(p) {
  .word p  // p "p"
}
.word a  // a "a"
.if 0 {
  .if 0 {
    .word a  // a "a"
    m(2)
  }
} else {
  .word b  // c "c"
}
a: {
  .if 0 {
    n(2)
    .word b  // c "c"
  } else {
    m(5)
    .word b  // c "c"
  }
}
b: {
  .word a  // a "a"
  .word b  // c "c"
}
.word b  // c "c"
.word b  // c "c"
