.word c  // a "a"
