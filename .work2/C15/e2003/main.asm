.import * from "inc.asm"
.word c  // a "a"
.const c = 3
.if 0 {
  .if 0 {
    .word c  // a "a"
    .word c  // a "a"
  }
}
.if 0 {
  .if 0 {
    .word c  // a "a"
  }
} else {
  .word c  // a "a"
}
