a: {
  a: {
    .word super.a  // super.a "a"
  }
  zz9: nop
  .word zz9  // b "b"
}
b: nop
.word a.zz9  // a.b "b"
