.import * from "inc.asm"
.if 0 {
  .word c  // b "b"
} else {
  .if 0 {
    .word c  // c "c"
  }
}
.word c  // c "c"
.word c  // b "b"
