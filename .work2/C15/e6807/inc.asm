c: nop
c: nop
