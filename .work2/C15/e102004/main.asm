zz1: {
  a: {
    .word zz1  // b "b"
  }
  b: nop
  .word super.zz1  // super.b "b"
}
a: nop
.word zz1  // b "b"
