.macro c(q) {
  .word q  // q "q"
  .word q  // q "q"
}
.if 0 {
  .if 1 {
    c(2)
  } else {
    .word b  // b "b"
    .word a.b  // a.b "b"
  }
} else {
  .if 0 {
    c(2)
    .word c  // c "c"
  }
}
c(5)
.const c = 9
a: {
  c(2)
  b: nop
  .word a  // a "a"
}
