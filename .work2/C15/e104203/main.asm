a: {
  b: {
    .word a.a  // a.a "a"
  }
  a: nop
  .word a.b  // a.b "b"
}
a: nop
.word a  // b "b"
