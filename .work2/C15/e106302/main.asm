.macro m(q) {
  .word q  // q "q"
}
.macro zz4(p) {
  .word p  // p "p"
}
s: {
  .const m = 12
  zz4(2)
  .word m  // m "m"
}
.const x = 21
.if 0 {
  m(2)
  .word x  // x "x"
} else {
  zz4(2)
  .word x  // x "x"
}
zz4(2)
