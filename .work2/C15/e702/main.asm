.if 1 {
  .if 0 {
    .word c  // c "c"
    .word zz9  // a "a"
  }
} else {
  .if 0 {
    .word zz9  // a "a"
  }
  .word zz9  // a "a"
}
b: {
  .word zz9  // a "a"
  .word b  // b "b"
}
.const zz9 = 3
.word zz9  // a "a"
.word b  // b "b"
.const c = 4
