.import * from "inc.asm"
.if 1 {
  .if 0 {
    .word b  // b "b"
    .word b  // b "b"
  } else {
    .word zz7  // c "c"
  }
  .word b  // b "b"
} else {
  .word b  // b "b"
}
.word zz7  // c "c"
zz7: nop
