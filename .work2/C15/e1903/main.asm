.macro m(q) {
  .word q  // q "q"
  .word q  // q "q"
}
.macro n(p) {
  .word p  // p "p"
  .word p  // p "p"
}
c: {
  c: {
    .word c.a  // c.a "a"
    n(5)
  }
  a: nop
  {
    m(2)
    .word c  // c "c"
  }
}
n(2)
a: {
  a: nop
  .word a  // a "a"
}
.if 0 {
  .word a.a  // b.a "a"
  .if 0 {
    m(2)
  }
}
