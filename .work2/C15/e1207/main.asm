.macro a(q) {
  .word q  // q "q"
  .word q  // q "q"
}
.if 1 {
  .if 0 {
    .word a  // m "m"
    .word a  // m "m"
  }
  .if 0 {
    a(2)
    a(2)
  }
} else {
  .if 0 {
    a(2)
    .word c  // c "c"
  }
}
a(2)
c: {
  .if 0 {
    .word c  // c "c"
    a(2)
  } else {
    a(2)
  }
  a(2)
  .const m = 14
}
.const b = 15
.word c.m  // c.m "m"
