b: {
  a: {
    .word super.zz1  // super.b "b"
  }
  zz1: nop
  .word super.b  // super.b "b"
}
a: nop
.word a  // a "a"
