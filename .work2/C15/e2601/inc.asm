.word a  // b "b"
