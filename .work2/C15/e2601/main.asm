.import * from "inc.asm"
.word c  // c "c"
.if 0 {
  .word a  // b "b"
  .word c  // c "c"
}
c: {
  .if 0 {
    .word super.c  // super.c "c"
  }
  c: nop
}
a: {
  .word a  // b "b"
  b: {
    a: nop
    .word a.b.a  // b.b.a "a"
    b: nop
  }
}
