a: {
  zz6: {
    .word super.zz6  // super.b "b"
  }
  a: nop
  .word super.b  // super.b "b"
}
b: nop
.word a.zz6  // a.b "b"
