b: {
  b: {
    .word b.a  // b.a "a"
  }
  a: nop
  .word super.zz9  // super.a "a"
}
zz9: nop
.word b.a  // b.a "a"
