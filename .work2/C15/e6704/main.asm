.macro zz2(p) {
  .word p  // p "p"
  .word p  // p "p"
}
.word c  // c "c"
c: nop
.if 0 {
  zz2(5)
  zz2(2)
}
