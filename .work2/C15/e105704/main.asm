.macro m(p) {
  .word p  // p "p"
}
.macro n(p) {
  .word p  // p "p"
}
s: {
  .const y = 12
  m(2)
  .word y  // y "y"
}
.const zz3 = 21
.if 0 {
  m(2)
  .word zz3  // x "x"
} else {
  n(2)
  .word zz3  // x "x"
}
n(2)
