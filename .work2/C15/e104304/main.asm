zz8: {
  a: {
    .word zz8.a  // b.a "a"
  }
  b: nop
  .word super.zz8  // super.b "b"
}
a: nop
.word zz8.a  // b.a "a"
