.macro m(q) {
  .word q  // q "q"
}
.macro n(p) {
  .word p  // p "p"
}
s: {
  .const y = 12
  m(2)
  .word y  // y "y"
}
.const zz2 = 21
.if 0 {
  m(2)
  .word zz2  // x "x"
} else {
  n(2)
  .word zz2  // x "x"
}
m(2)
