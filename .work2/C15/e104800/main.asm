zz9: {
  a: {
    .word .super.zz9  // super.super.b "b"
  }
  b: nop
  .word super.zz9  // super.b "b"
}
a: nop
.word a  // a "a"
