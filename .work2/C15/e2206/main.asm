.import * from "inc.asm"
zz9: {
  .if 0 {
    .word zz9.b  // a.b "b"
    .word b  // b "b"
  }
  .const b = 4
  .word super.zz9  // super.a "a"
}
.if 0 {
  .if 0 {
    .word zz9  // a "a"
    .word zz9.b  // a.b "b"
  } else {
    .word zz9.b  // a.b "b"
    .word zz9.b  // a.b "b"
  }
}
.word zz9.b  // a.b "b"
