.word zz9  // a "a"
