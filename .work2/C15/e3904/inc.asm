zz7: {
  b: nop
  .word zz7  // a "a"
}
