.import * from "inc.asm"
.const b = 5
.if 0 {
  .word zz7  // a "a"
}
.word zz7  // a "a"
