zz3: {
  b: nop
  .word zz3  // a "a"
}
