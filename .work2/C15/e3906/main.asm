.import * from "inc.asm"
.const b = 5
.if 0 {
  .word zz3  // a "a"
}
.word zz3  // a "a"
