b: {
  a: {
    .word zz6  // b "b"
  }
  zz6: nop
  .word super.b  // super.b "b"
}
a: nop
.word b  // b "b"
