.word c  // c "c"
a: nop
.word c  // c "c"
c: nop
