zz3: {
  a: {
    .word a  // a "a"
  }
  b: nop
  .word super.zz3  // super.b "b"
}
a: nop
.word zz3.a  // b.a "a"
