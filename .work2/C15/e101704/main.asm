zz3: {
  b: {
    .word .b  // super.b "b"
  }
  a: nop
  .word a  // a "a"
}
a: nop
.word zz3  // b "b"
