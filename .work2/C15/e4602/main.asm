.import * from "inc.asm"
.if 0 {
  .word zz5  // c "c"
  .if 0 {
    .word zz5  // c "c"
    .word zz5  // c "c"
  }
}
.word b  // b "b"
.word b  // b "b"
.word b  // b "b"
.const b = 7
