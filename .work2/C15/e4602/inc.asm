zz5: {
  .word zz5  // c "c"
  .word super.zz5  // super.c "c"
  a: nop
}
