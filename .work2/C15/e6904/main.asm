.word b  // b "b"
zz3: nop
b: {
  {
    .word super.b.a  // super.b.a "a"
  }
  .word zz3  // a "a"
  b: {
    a: nop
    .word a  // a "a"
  }
}
