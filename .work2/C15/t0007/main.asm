a: {
  a: {
    .word a.b  // a.b "b"
  }
  b: nop
  .word b  // b "b"
}
b: nop
.word a  // a "a"
