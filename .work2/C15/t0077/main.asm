.macro m(p) {
  .word p  // p "p"
}
.macro n(p) {
  .word p  // p "p"
}
s: {
  .const m = 12
  n(2)
  .word m  // m "m"
}
.const x = 21
.if 0 {
  m(2)
  .word x  // x "x"
} else {
  n(2)
  .word x  // x "x"
}
m(2)
