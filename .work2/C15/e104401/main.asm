b: {
  a: {
    .word b.b  // a.b "b"
  }
  b: nop
  .word b.b  // a.b "b"
}
b: nop
.word b  // a "a"
