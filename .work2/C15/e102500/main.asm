a: {
  zz7: {
    .word a.zz7  // a.a "a"
  }
  b: nop
  .word a.b  // a.b "b"
}
b: nop
.word a.zz7  // a.a "a"
