a: {
  zz7: {
    .word super.zz7  // super.b "b"
  }
  a: nop
  .word a  // a "a"
}
b: nop
.word a  // a "a"
