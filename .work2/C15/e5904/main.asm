.word b  // b "b"
.word b.c.zz8  // b.c.b "b"
b: {
  c: {
    .word b.c  // b.c "c"
    zz8: nop
  }
}
.if 0 {
  .word c  // c "c"
} else {
  .if 0 {
    .word a.c  // a.c "c"
  }
}
a: {
  {
    c: nop
  }
  .const b = 7
  c: nop
}
