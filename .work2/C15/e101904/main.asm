a: {
  b: {
    .word b  // b "b"
  }
  zz3: nop
  .word zz3  // a "a"
}
b: nop
.word b  // b "b"
