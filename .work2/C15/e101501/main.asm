c: {
  b: {
    .word .a  // super.a "a"
  }
  a: nop
  .word b  // b "b"
}
a: nop
.word a  // a "a"
