.macro zz2(q) {
  .word q  // q "q"
  .word q  // q "q"
}
.macro n(q) {
  .word q  // q "q"
}
.word b  // b "b"
.word b  // b "b"
.word zz2  // m "m"
{
  .const m = 9
}
b: {
  .word zz2  // m "m"
}
.if 0 {
  zz2(2)
}
n(2)
