.macro m(p, q) {
  .word q  // q "q"
  .word q  // q "q"
}
.macro n(q) {
  .word q  // q "q"
}
.word c  // b "b"
.word c  // b "b"
m(5, 2)
.if 0 {
  n(2)
}
.if 0 {
  .word c  // b "b"
  .if 0 {
    m(2, 2)
  }
} else {
  .if 0 {
    n(5)
    .word c  // b "b"
  }
  n(2)
}
c: nop
.word c  // b "b"
m(2, 2)
