.import * from "inc.asm"
zz1: {
  .word zz1  // b "b"
}
.if 0 {
  .if 1 {
    .word c  // c "c"
    .word c  // c "c"
  } else {
    .word zz1  // b "b"
  }
} else {
  .if 0 {
    .word zz1  // b "b"
    .word c  // c "c"
  }
}
.word zz1  // b "b"
