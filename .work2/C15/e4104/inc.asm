.const c = 2
.word c  // c "c"
