.const zz8 = 2
