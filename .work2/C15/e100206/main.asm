a: {
  zz4: {
    .word super.a  // super.a "a"
  }
  a: nop
  .word a.zz4  // a.b "b"
}
b: nop
.word b  // b "b"
