zz7: {
  b: {
    .word .b  // super.b "b"
  }
  a: nop
  .word a  // a "a"
}
a: nop
.word zz7.a  // b.a "a"
