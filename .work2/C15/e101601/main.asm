c: {
  b: {
    .word .b  // super.b "b"
  }
  a: nop
  .word super.b  // super.b "b"
}
b: nop
.word c.b  // a.b "b"
