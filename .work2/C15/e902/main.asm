.import * from "inc.asm"
.if 0 {
  .word zz6  // a "a"
  .if 0 {
    .word zz6  // a "a"
  }
}
.word zz6  // a "a"
.word zz6  // a "a"
zz6: nop
