.macro m(p) {
  .word p  // p "p"
}
.macro n(q) {
  .word q  // q "q"
  .word q  // q "q"
}
.word c  // c "c"
.const c = 9
m(2)
.if 0 {
  n(5)
}
.const b = 11
a: {
  c: {
    a: nop
    m(5)
  }
  n(2)
  b: nop
}
.word a.c.a  // a.c.a "a"
m(5)
