.macro b(p) {
  .word p  // p "p"
}
.if 0 {
  .word a.a.c  // a.a.c "c"
  b(2)
} else {
  .if 0 {
    b(2)
    b(5)
  }
  b(5)
}
.const b = 9
c: nop
a: {
  a: {
    b(2)
    c: nop
  }
  .const m = 15
  b(2)
}
