.word c  // c "c"
b: nop
.word c  // c "c"
c: nop
