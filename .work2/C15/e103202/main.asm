a: {
  zz9: {
    .word zz9  // a "a"
  }
  b: nop
  .word zz9  // a "a"
}
b: nop
.word a.zz9  // a.a "a"
