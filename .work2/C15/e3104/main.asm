.import * from "inc.asm"
zz7: {
  .word zz7  // b "b"
  .if 0 {
    .word zz7  // b "b"
  }
  .if 1 {
    .word c  // c "c"
    .word c  // c "c"
  } else {
    .word zz7  // b "b"
    .word c  // c "c"
  }
}
.if 0 {
  .if 0 {
    .word zz7  // b "b"
    .word c  // c "c"
  } else {
    .word c  // c "c"
  }
  .word zz7  // b "b"
}
.const c = 4
