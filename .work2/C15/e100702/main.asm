a: {
  a: {
    .word a.b  // a.b "b"
  }
  b: nop
  .word b  // b "b"
}
zz5: nop
.word a  // a "a"
