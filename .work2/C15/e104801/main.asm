a: {
  a: {
    .word .super.a  // super.super.b "b"
  }
  b: nop
  .word super.a  // super.b "b"
}
a: nop
.word a  // a "a"
