.word a  // b "b"
.word a  // b "b"
.word a  // b "b"
.const a = 2
.word a  // b "b"
