a: {
  a: {
    .word super.a  // super.b "b"
  }
  a: nop
  .word super.b  // super.b "b"
}
b: nop
.word a.a  // a.b "b"
