b: {
  a: {
    .word a  // b "b"
  }
  a: nop
  .word super.b  // super.b "b"
}
a: nop
.word b  // b "b"
