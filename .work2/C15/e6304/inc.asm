.word zz0.a  // c.a "a"
zz0: {
  .const a = 3
  b: nop
}
