b: {
  b: {
    .word b.a  // b.a "a"
  }
  a: nop
  .word super.a  // super.a "a"
}
a: nop
.word b  // b "b"
