c: {
  .word super.c  // super.b "b"
}
{
  .word a  // a "a"
}
.const a = 3
.word a  // a "a"
c: nop
