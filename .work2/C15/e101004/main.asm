zz4: {
  b: {
    .word .b  // super.b "b"
  }
  a: nop
  .word b  // b "b"
}
b: nop
.word b  // b "b"
