zz4: {
  b: {
    .word zz4  // a "a"
  }
  a: nop
  .word b  // b "b"
}
b: nop
.word zz4.b  // a.b "b"
