.macro m(q) {
  .word q  // q "q"
}
.macro n(p) {
  .word p  // p "p"
}
s: {
  .const m = 12
  n(2)
  .word m  // m "m"
}
.const zz0 = 21
.if 0 {
  m(2)
  .word zz0  // x "x"
} else {
  m(2)
  .word zz0  // x "x"
}
n(2)
