zz9: {
  a: {
    .word zz9.b  // a.b "b"
  }
  b: nop
  .word b  // b "b"
}
b: nop
.word zz9  // a "a"
