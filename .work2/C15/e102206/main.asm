a: {
  a: {
    .word super.super.b  // super.super.b "b"
  }
  zz9: nop
  .word super.b  // super.b "b"
}
b: nop
.word a.zz9  // a.b "b"
