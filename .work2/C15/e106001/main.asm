.macro m(p) {
  .word p  // p "p"
}
.macro n(p) {
  .word p  // p "p"
}
s: {
  .const c = 12
  m(2)
  .word c  // m "m"
}
.const x = 21
.if 1 {
  m(2)
  .word x  // x "x"
} else {
  n(2)
  .word x  // x "x"
}
n(2)
