b: {
  a: {
    .word .a  // super.a "a"
  }
  b: nop
  .word a  // a "a"
}
b: nop
.word b.a  // a.a "a"
