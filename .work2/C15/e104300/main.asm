b: {
  zz9: {
    .word b.zz9  // b.a "a"
  }
  b: nop
  .word super.b  // super.b "b"
}
a: nop
.word b.zz9  // b.a "a"
