.macro m(q) {
  .word q  // q "q"
  .word q  // q "q"
}
.macro n(p) {
  .word p  // p "p"
}
.word a  // a "a"
a: {
  b: {
    .word zz9  // c "c"
    .word super.zz9  // super.c "c"
    m(5)
  }
  zz9: nop
}
b: nop
n(2)
.word a.zz9  // a.c "c"
