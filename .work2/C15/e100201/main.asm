a: {
  b: {
    .word super.a  // super.a "a"
  }
  a: nop
  .word a.b  // a.b "b"
}
a: nop
.word a  // b "b"
