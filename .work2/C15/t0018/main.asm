b: {
  b: {
    .word b  // b "b"
  }
  a: nop
  .word super.b  // super.b "b"
}
a: nop
.word b  // b "b"
