.macro zz7(q) {
  .word q  // q "q"
}
a: {
  .word b  // b "b"
  c: {
    zz7(2)
    .word a  // a "a"
    .word b  // b "b"
  }
}
b: nop
c: nop
{
  a: nop
}
.word b  // b "b"
{
  .word super.c  // super.c "c"
}
