{
  .if 0 {
    .word a  // a "a"
  }
}
.word b  // b "b"
b: {
  .word c.b  // c.b "b"
}
c: {
  .word c  // c "c"
  .word c.b  // c.b "b"
  b: {
    .word super.super.b  // super.super.b "b"
    .word c.b  // c.b "b"
    zz8: nop
  }
}
.word c.b.zz8  // c.b.a "a"
.word b  // b "b"
