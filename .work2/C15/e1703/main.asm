.import * from "inc.asm"
.word c  // b "b"
.if 0 {
  .if 1 {
    .word c  // b "b"
    .word c  // b "b"
  } else {
    .word c  // b "b"
  }
}
a: {
  .word super.a  // super.a "a"
  .word c  // b "b"
  b: {
    .word b  // b "b"
    .word c  // c "c"
    .word super.super.a  // super.super.a "a"
  }
}
c: {
  .const b = 6
}
