.const c = 2
