.word b  // b "b"
.word b.zz9.b  // b.c.b "b"
b: {
  zz9: {
    .word b.zz9  // b.c "c"
    b: nop
  }
}
.if 0 {
  .word c  // c "c"
} else {
  .if 0 {
    .word a.c  // a.c "c"
  }
}
a: {
  {
    c: nop
  }
  .const b = 7
  c: nop
}
