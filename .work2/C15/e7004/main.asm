.import * from "inc.asm"
b: nop
.const c = 4
zz9: nop
