.macro m(q) {
  .word q  // q "q"
}
a: {
  .word zz9  // b "b"
  c: {
    m(2)
    .word a  // a "a"
    .word zz9  // b "b"
  }
}
zz9: nop
c: nop
{
  a: nop
}
.word zz9  // b "b"
{
  .word super.c  // super.c "c"
}
