.macro zz1(p) {
  .word p  // p "p"
}
.if 0 {
  .word a.a.c  // a.a.c "c"
  zz1(2)
} else {
  .if 0 {
    zz1(2)
    zz1(5)
  }
  zz1(5)
}
.const b = 9
c: nop
a: {
  a: {
    zz1(2)
    c: nop
  }
  .const m = 15
  zz1(2)
}
