a: {
  zz3: {
    .word zz3  // a "a"
  }
  b: nop
  .word zz3  // a "a"
}
b: nop
.word a.zz3  // a.a "a"
