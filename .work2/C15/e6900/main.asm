.word b  // b "b"
zz8: nop
b: {
  {
    .word super.b.a  // super.b.a "a"
  }
  .word zz8  // a "a"
  b: {
    a: nop
    .word a  // a "a"
  }
}
