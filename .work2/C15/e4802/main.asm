{
  .if 0 {
    .word c  // c "c"
    .word zz0.c.a  // a.c.a "a"
  } else {
    .word c  // c "c"
    .word zz0  // a "a"
  }
}
.word zz0  // a "a"
zz0: {
  .word zz0.c  // a.c "c"
  .word zz0  // a "a"
  c: {
    .const a = 4
  }
}
c: {
  .if 0 {
    .word super.zz0.c.a  // super.a.c.a "a"
    .word c.a  // c.a "a"
  }
}
