a: {
  a: {
    .word super.super.zz5  // super.super.b "b"
  }
  b: nop
  .word b  // b "b"
}
zz5: nop
.word a  // a "a"
