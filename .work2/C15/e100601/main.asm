a: {
  a: {
    .word a.a  // a.a "a"
  }
  a: nop
  .word a  // b "b"
}
b: nop
.word a  // a "a"
