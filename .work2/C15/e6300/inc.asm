.word c.a  // c.a "a"
c: {
  .const a = 3
  b: nop
}
