.import * from "inc.asm"
b: {
  .if 0 {
    .word b.a  // b.a "a"
  }
  a: {
    .word b  // b "b"
    .const a = 9
    .word super.b.zz4  // super.b.b "b"
  }
  b: {
    .word super.super.b  // super.super.b "b"
    .const zz4 = 11
    .word zz4  // b "b"
  }
}
.if 0 {
  .if 0 {
    .word b.b.zz4  // b.b.b "b"
    .word b  // b "b"
  }
}
.if 0 {
  .word a.a  // a.a "a"
  .if 0 {
    .word b.b  // b.b "b"
  }
}
.word c  // c "c"
