.macro m(q) {
  .word q  // q "q"
  .word q  // q "q"
}
.macro zz2(p) {
  .word p  // p "p"
  .word p  // p "p"
}
{
  m(2)
}
m(5)
{
  zz2(2)
}
c: nop
