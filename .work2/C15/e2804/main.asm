.macro m(q) {
  .word q  // q "q"
}
.macro n(p) {
  .word p  // p "p"
  .word p  // p "p"
}
.word zz0  // a "a"
zz0: {
  b: nop
  .const c = 11
}
b: nop
.if 0 {
  n(2)
}
.word zz0  // a "a"
.word zz0.b  // a.b "b"
c: {
  {
    m(2)
  }
}
m(2)
