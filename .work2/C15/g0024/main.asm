.import * from "inc.asm"
.word a  // a "a"
.const a = 4
.word a  // a "a"
