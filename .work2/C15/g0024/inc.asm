.word a  // a "a"
.word a  // a "a"
