a: {
  zz7: {
    .word super.zz7  // super.a "a"
  }
  b: nop
  .word zz7  // a "a"
}
b: nop
.word a.zz7  // a.a "a"
