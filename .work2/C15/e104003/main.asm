a: {
  b: {
    .word super.super.c  // super.super.b "b"
  }
  a: nop
  .word a.a  // a.a "a"
}
c: nop
.word a.a  // a.a "a"
