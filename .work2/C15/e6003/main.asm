.word b  // b "b"
.word b  // b "b"
c: nop
.word c  // c "c"
{
  .word super.c  // super.c "c"
  c: {
    .word c  // b "b"
    b: nop
  }
}
.const b = 5
