.macro a(q) {
  .word q  // q "q"
}
.macro n(p) {
  .word p  // p "p"
}
s: {
  .const y = 12
  a(2)
  .word y  // y "y"
}
.const x = 21
.if 1 {
  a(2)
  .word s.y  // s.y "y"
} else {
  n(2)
  .word x  // x "x"
}
n(2)
