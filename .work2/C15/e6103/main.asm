.import * from "inc.asm"
c: {
  a: nop
  c: nop
  .if 0 {
    .word c.c  // b.c "c"
  }
}
.if 0 {
  .if 0 {
    .word c.c  // b.c "c"
  }
}
.if 1 {
  .word a  // a "a"
} else {
  .word c.c  // c.c "c"
  .word a  // a "a"
}
a: nop
c: {
  .word c  // c "c"
  c: {
    .word c  // c "c"
  }
}
.if 0 {
  .if 0 {
    .word c  // c "c"
    .word a  // a "a"
  }
  .word c.c  // c.c "c"
}
