b: {
  b: {
    .word super.a  // super.a "a"
  }
  a: nop
  .word super.b  // super.a "a"
}
b: nop
.word b  // a "a"
