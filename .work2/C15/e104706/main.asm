a: {
  b: {
    .word super.b  // super.b "b"
  }
  zz3: nop
  .word zz3  // a "a"
}
b: nop
.word a  // a "a"
