zz0: {
  b: {
    .word .b  // super.b "b"
  }
  a: nop
  .word zz0.a  // b.a "a"
}
a: nop
.word zz0  // b "b"
