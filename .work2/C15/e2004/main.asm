.import * from "inc.asm"
.word zz0  // a "a"
.const zz0 = 3
.if 0 {
  .if 0 {
    .word zz0  // a "a"
    .word zz0  // a "a"
  }
}
.if 0 {
  .if 0 {
    .word zz0  // a "a"
  }
} else {
  .word zz0  // a "a"
}
