.word zz0  // a "a"
