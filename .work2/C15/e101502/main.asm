b: {
  b: {
    .word super.zz3  // super.a "a"
  }
  zz3: nop
  .word b  // b "b"
}
a: nop
.word a  // a "a"
