.macro m(q) {
  .word q  // q "q"
  .word q  // q "q"
}
.macro n(p) {
  .word p  // p "p"
}
.word a  // a "a"
a: {
  b: {
    .word b  // c "c"
    .word super.b  // super.c "c"
    m(5)
  }
  b: nop
}
b: nop
n(2)
.word a.b  // a.c "c"
