.macro m(p) {
  .word p  // p "p"
  .word p  // p "p"
}
.macro n(p) {
  .word p  // p "p"
}
.word a  // a "a"
.if 0 {
  .if 0 {
    .word a  // a "a"
    m(2)
  }
} else {
  .word a  // c "c"
}
a: {
  .if 0 {
    n(2)
    .word a  // c "c"
  } else {
    m(5)
    .word a  // c "c"
  }
}
a: {
  .word a  // a "a"
  .word a  // c "c"
}
.word a  // c "c"
.word a  // c "c"
