b: {
  zz4: {
    .word super.zz4  // super.b "b"
  }
  a: nop
  .word a  // a "a"
}
a: nop
.word b  // b "b"
