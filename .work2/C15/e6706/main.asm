.macro m(p) {
  .word p  // p "p"
  .word p  // p "p"
}
.word zz4  // c "c"
zz4: nop
.if 0 {
  m(5)
  m(2)
}
