.word zz9  // c "c"
zz9: nop
{
  .word zz9  // c "c"
}
