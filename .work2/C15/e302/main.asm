.import * from "inc.asm"
a: {
  b: {
    .word a.b  // a.b "b"
    c: nop
  }
  .if 0 {
    .word c  // c "c"
  }
}
c: {
  .const b = 9
}
zz3: {
  .if 0 {
    .word zz3  // b "b"
  }
  .word a.b  // a.b "b"
  .word zz3  // b "b"
}
.if 0 {
  .word c  // c "c"
  .if 0 {
    .word a  // a "a"
    .word c  // c "c"
  }
}
.word a.b  // a.b "b"
