.import * from "inc.asm"
a: {
  b: {
    .word a.b  // a.b "b"
    zz2: nop
  }
  .if 0 {
    .word c  // c "c"
  }
}
c: {
  .const b = 9
}
b: {
  .if 0 {
    .word b  // b "b"
  }
  .word a.b  // a.b "b"
  .word b  // b "b"
}
.if 0 {
  .word c  // c "c"
  .if 0 {
    .word a  // a "a"
    .word c  // c "c"
  }
}
.word a.b  // a.b "b"
