b: {
  a: {
    .word super.c  // super.b "b"
  }
  c: nop
  .word c  // b "b"
}
a: nop
.word a  // a "a"
