b: {
  a: {
    .word a  // a "a"
  }
  a: nop
  .word super.a  // super.a "a"
}
a: nop
.word b  // b "b"
