b: {
  b: {
    .word .b  // super.b "b"
  }
  a: nop
  .word b.a  // a.a "a"
}
b: nop
.word b  // a "a"
