c: {
  a: {
    .word c.a  // a.a "a"
  }
  b: nop
  .word a  // a "a"
}
b: nop
.word c.b  // a.b "b"
