a: {
  c: {
    .word super.c  // super.b "b"
  }
  a: nop
  .word super.a  // super.a "a"
}
b: nop
.word a.c  // a.b "b"
