.import * from "inc.asm"
.word a  // c "c"
.const a = 3
.word a  // c "c"
a: {
  .word a  // c "c"
  .const c = 5
  .if 1 {
    .word c  // c "c"
  } else {
    .word a.c  // a.c "c"
  }
}
b: {
  .if 1 {
    .word a  // c "c"
    .word a  // c "c"
  } else {
    .word b  // b "b"
  }
}
