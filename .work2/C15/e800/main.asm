.macro m(q) {
  .word q  // q "q"
}
c: {
  {
    b: nop
  }
}
b: {
  .const zz3 = 8
}
m(5)
.word b  // b "b"
.word b.zz3  // b.a "a"
