.macro m(p) {
  .word p  // p "p"
  .word p  // p "p"
}
.macro n(p) {
  .word p  // p "p"
}
.word a  // a "a"
.if 0 {
  .if 0 {
    .word a  // a "a"
    m(2)
  }
} else {
  .word zz8  // c "c"
}
a: {
  .if 0 {
    n(2)
    .word zz8  // c "c"
  } else {
    m(5)
    .word zz8  // c "c"
  }
}
zz8: {
  .word a  // a "a"
  .word zz8  // c "c"
}
.word zz8  // c "c"
.word zz8  // c "c"
