a: {
  a: {
    .word super.a  // super.a "a"
  }
  c: nop
  .word c  // b "b"
}
b: nop
.word a.c  // a.b "b"
