.import * from "inc.asm"
zz5: {
  .if 0 {
    .word zz5.b  // a.b "b"
    .word b  // b "b"
  }
  .const b = 4
  .word super.zz5  // super.a "a"
}
.if 0 {
  .if 0 {
    .word zz5  // a "a"
    .word zz5.b  // a.b "b"
  } else {
    .word zz5.b  // a.b "b"
    .word zz5.b  // a.b "b"
  }
}
.word zz5.b  // a.b "b"
