zz5: {
  b: {
    .word .super.b  // super.super.b "b"
  }
  a: nop
  .word zz5.a  // a.a "a"
}
b: nop
.word zz5.a  // a.a "a"
