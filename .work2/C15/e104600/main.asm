zz3: {
  b: {
    .word zz3  // a "a"
  }
  a: nop
  .word b  // b "b"
}
b: nop
.word zz3.b  // a.b "b"
