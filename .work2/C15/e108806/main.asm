.macro m(p) {
  .word p  // p "p"
}
.macro zz9(p) {
  .word p  // p "p"
}
s: {
  .const m = 12
  m(2)
  .word m  // m "m"
}
.const x = 21
.if 1 {
  zz9(2)
  .word s.m  // s.m "m"
} else {
  zz9(2)
  .word x  // x "x"
}
zz9(2)
