a: {
  a: {
    .word super.super.a  // super.super.b "b"
  }
  b: nop
  .word super.a  // super.b "b"
}
a: nop
.word a.b  // a.b "b"
