b: {
  c: {
    .word super.a  // super.a "a"
  }
  a: nop
  .word a  // a "a"
}
a: nop
.word a  // a "a"
