.macro zz2(q) {
  .word q  // q "q"
}
.if 0 {
  .word c  // c "c"
} else {
  .if 0 {
    zz2(2)
    zz2(2)
  }
  .if 0 {
    .word c  // c "c"
    zz2(2)
  }
}
.word c  // c "c"
.word c  // c "c"
.const c = 8
