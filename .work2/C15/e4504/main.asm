.macro m(q) {
  .word q  // q "q"
  .word q  // q "q"
}
.macro n(zz3) {
  .word zz3  // p "p"
  .word zz3  // p "p"
}
{
  m(2)
}
m(5)
{
  n(2)
}
c: nop
