.macro a(q) {
  .word q  // q "q"
}
.if 0 {
  .word c  // c "c"
} else {
  .if 0 {
    a(2)
    a(2)
  }
  .if 0 {
    .word c  // c "c"
    a(2)
  }
}
.word c  // c "c"
.word c  // c "c"
.const c = 8
