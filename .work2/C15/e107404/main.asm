.macro zz3(q) {
  .word q  // q "q"
}
.macro n(p) {
  .word p  // p "p"
}
s: {
  .const y = 12
  n(2)
  .word y  // y "y"
}
.const x = 21
.if 1 {
  zz3(2)
  .word s.y  // s.y "y"
} else {
  zz3(2)
  .word x  // x "x"
}
zz3(2)
