b: {
  b: {
    .word super.a  // super.a "a"
  }
  a: nop
  .word super.zz0  // super.a "a"
}
zz0: nop
.word zz0  // a "a"
