a: {
  b: {
    .word b  // a "a"
  }
  b: nop
  .word b  // a "a"
}
b: nop
.word a.b  // a.a "a"
