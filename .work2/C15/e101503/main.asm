b: {
  b: {
    .word super.c  // super.a "a"
  }
  c: nop
  .word b  // b "b"
}
a: nop
.word a  // a "a"
