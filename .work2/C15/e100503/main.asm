c: {
  b: {
    .word .b  // super.b "b"
  }
  a: nop
  .word super.c  // super.a "a"
}
b: nop
.word c.b  // a.b "b"
