.macro zz9(q) {
  .word q  // q "q"
}
.macro n(p) {
  .word p  // p "p"
  .word p  // p "p"
}
.word a  // a "a"
a: {
  b: nop
  .const c = 11
}
b: nop
.if 0 {
  n(2)
}
.word a  // a "a"
.word a.b  // a.b "b"
c: {
  {
    zz9(2)
  }
}
zz9(2)
