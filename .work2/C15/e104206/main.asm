zz2: {
  b: {
    .word zz2.a  // a.a "a"
  }
  a: nop
  .word zz2.b  // a.b "b"
}
b: nop
.word b  // b "b"
