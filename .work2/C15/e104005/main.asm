b: {
  b: {
    .word .super.b  // super.super.b "b"
  }
  a: nop
  .word b.a  // a.a "a"
}
b: nop
.word b.a  // a.a "a"
