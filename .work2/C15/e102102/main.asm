a: {
  zz4: {
    .word super.super.b  // super.super.b "b"
  }
  b: nop
  .word b  // b "b"
}
b: nop
.word a  // a "a"
