.import * from "inc.asm"
a: {
  a: nop
  c: nop
  .if 0 {
    .word b.c  // b.c "c"
  }
}
.if 0 {
  .if 0 {
    .word b.c  // b.c "c"
  }
}
.if 1 {
  .word a  // a "a"
} else {
  .word a.c  // c.c "c"
  .word a  // a "a"
}
a: nop
b: {
  .word a  // c "c"
  c: {
    .word c  // c "c"
  }
}
.if 0 {
  .if 0 {
    .word a  // c "c"
    .word a  // a "a"
  }
  .word a.c  // c.c "c"
}
