b: {
  a: {
    .word super.b  // super.b "b"
  }
  b: nop
  .word b  // b "b"
}
zz0: nop
.word zz0  // a "a"
