a: {
  a: {
    .word a.a  // a.a "a"
  }
  c: nop
  .word a.c  // a.b "b"
}
b: nop
.word a.a  // a.a "a"
