.macro m(zz2) {
  .word zz2  // q "q"
  .word zz2  // q "q"
}
.const a = 6
.word a  // a "a"
b: nop
m(2)
