.word zz6  // a "a"
.word zz6  // a "a"
