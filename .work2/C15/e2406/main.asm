.import * from "inc.asm"
.word zz6  // a "a"
.const zz6 = 4
.word zz6  // a "a"
