a: {
  zz6: {
    .word super.zz6  // super.b "b"
  }
  a: nop
  .word zz6  // b "b"
}
b: nop
.word b  // b "b"
