zz7: {
  a: {
    .word .a  // super.a "a"
  }
  b: nop
  .word super.zz7  // super.a "a"
}
b: nop
.word b  // b "b"
