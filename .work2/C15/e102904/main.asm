a: {
  a: {
    .word super.a  // super.a "a"
  }
  b: nop
  .word a  // a "a"
}
zz5: nop
.word a.a  // a.a "a"
