.word b  // b "b"
.word b  // b "b"
