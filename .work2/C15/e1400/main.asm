.import * from "inc.asm"
c: nop
zz4: {
  .word c  // c "c"
  .if 0 {
    .word super.b  // super.b "b"
  } else {
    .word zz4  // a "a"
    .word b  // b "b"
  }
  .word super.zz4  // super.a "a"
}
.if 0 {
  .if 0 {
    .word c  // c "c"
  }
}
.const b = 7
.if 0 {
  .if 0 {
    .word zz4  // a "a"
  }
}
.word c  // c "c"
