b: {
  a: {
    .word b.a  // b.a "a"
  }
  b: nop
  .word super.b  // super.b "b"
}
zz5: nop
.word b.a  // b.a "a"
