.word zz1  // a "a"
