.macro m(q) {
  .word q  // q "q"
}
.macro c(p) {
  .word p  // p "p"
}
s: {
  .const m = 12
  c(2)
  .word m  // m "m"
}
.const x = 21
.if 0 {
  c(2)
  .word x  // x "x"
} else {
  c(2)
  .word x  // x "x"
}
m(2)
