b: {
  b: {
    .word super.zz3  // super.a "a"
  }
  zz3: nop
  .word super.a  // super.a "a"
}
a: nop
.word a  // a "a"
