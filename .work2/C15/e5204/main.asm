.word zz2  // a "a"
zz2: nop
.word zz2  // a "a"
.word zz2  // a "a"
