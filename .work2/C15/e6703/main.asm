.macro m(b) {
  .word b  // p "p"
  .word b  // p "p"
}
.word c  // c "c"
c: nop
.if 0 {
  m(5)
  m(2)
}
