a: {
  b: {
    .word a.a  // a.a "a"
  }
  a: nop
  .word b  // b "b"
}
zz0: nop
.word a  // a "a"
