b: {
  zz0: {
    .word super.super.b  // super.super.b "b"
  }
  b: nop
  .word super.b  // super.b "b"
}
a: nop
.word b.zz0  // b.a "a"
