.import * from "inc.asm"
.if 0 {
  .word c  // a "a"
  .if 0 {
    .word c  // a "a"
  }
}
.word c  // a "a"
.word c  // a "a"
c: nop
