zz2: {
  a: {
    .word .a  // super.a "a"
  }
  b: nop
  .word zz2.b  // a.b "b"
}
b: nop
.word zz2.a  // a.a "a"
