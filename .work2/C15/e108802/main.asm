.macro m(p) {
  .word p  // p "p"
}
.macro zz4(p) {
  .word p  // p "p"
}
s: {
  .const m = 12
  m(2)
  .word m  // m "m"
}
.const x = 21
.if 1 {
  zz4(2)
  .word s.m  // s.m "m"
} else {
  zz4(2)
  .word x  // x "x"
}
zz4(2)
