b: {
  b: {
    .word super.b  // super.b "b"
  }
  a: nop
  .word a  // a "a"
}
zz0: nop
.word b  // b "b"
