.macro m(q) {
  .word q  // q "q"
  .word q  // q "q"
}
c: {
  b: {
    .word b  // b "b"
  }
  m(2)
}
a: nop
.word zz4  // b "b"
.word c.b  // c.b "b"
.if 1 {
  .if 0 {
    m(2)
  }
} else {
  .if 0 {
    m(2)
    .word c  // c "c"
  }
  .word a  // a "a"
}
zz4: {
  .const m = 13
  .word zz4.m  // b.m "m"
  b: nop
}
