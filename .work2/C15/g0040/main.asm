c: {
  .word super.b  // super.b "b"
}
{
  .word a  // a "a"
}
.const a = 3
.word a  // a "a"
b: nop
