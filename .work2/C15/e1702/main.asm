.import * from "inc.asm"
.word zz7  // b "b"
.if 0 {
  .if 1 {
    .word zz7  // b "b"
    .word zz7  // b "b"
  } else {
    .word zz7  // b "b"
  }
}
a: {
  .word super.a  // super.a "a"
  .word zz7  // b "b"
  b: {
    .word b  // b "b"
    .word c  // c "c"
    .word super.super.a  // super.super.a "a"
  }
}
c: {
  .const b = 6
}
