.const zz7 = 2
