.word zz5  // b "b"
.word zz5  // b "b"
