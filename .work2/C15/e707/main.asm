.if 1 {
  .if 0 {
    .word b  // c "c"
    .word a  // a "a"
  }
} else {
  .if 0 {
    .word a  // a "a"
  }
  .word a  // a "a"
}
b: {
  .word a  // a "a"
  .word b  // b "b"
}
.const a = 3
.word a  // a "a"
.word b  // b "b"
.const b = 4
