.word c  // c "c"
zz4: nop
.word c  // c "c"
c: nop
