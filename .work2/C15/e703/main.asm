.if 1 {
  .if 0 {
    .word c  // c "c"
    .word c  // a "a"
  }
} else {
  .if 0 {
    .word c  // a "a"
  }
  .word c  // a "a"
}
b: {
  .word c  // a "a"
  .word b  // b "b"
}
.const c = 3
.word c  // a "a"
.word b  // b "b"
.const c = 4
