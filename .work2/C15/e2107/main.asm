.macro m(b) {
  .word b  // q "q"
  .word b  // q "q"
}
.const a = 6
.word a  // a "a"
b: nop
m(2)
