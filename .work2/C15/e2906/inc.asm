zz7: {
  .word super.zz7  // super.b "b"
}
