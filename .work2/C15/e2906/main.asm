.import * from "inc.asm"
.if 0 {
  .if 0 {
    .word zz7  // b "b"
  }
}
.if 0 {
  .if 0 {
    .word zz7  // b "b"
    .word zz7  // b "b"
  }
} else {
  .word zz7  // b "b"
}
.word zz7  // b "b"
.word zz7  // b "b"
.word zz7  // b "b"
.word zz7  // b "b"
