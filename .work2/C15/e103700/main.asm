zz0: {
  b: {
    .word .a  // super.a "a"
  }
  a: nop
  .word super.a  // super.a "a"
}
a: nop
.word a  // a "a"
