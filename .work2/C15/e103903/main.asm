b: {
  a: {
    .word super.b  // super.b "b"
  }
  b: nop
  .word super.b  // super.b "b"
}
b: nop
.word b  // a "a"
