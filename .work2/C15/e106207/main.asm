.macro m(p) {
  .word p  // p "p"
}
.macro n(p) {
  .word p  // p "p"
}
s: {
  .const c = 12
  m(2)
  .word c  // m "m"
}
.const x = 21
.if 1 {
  n(2)
  .word s.c  // s.m "m"
} else {
  m(2)
  .word x  // x "x"
}
m(2)
