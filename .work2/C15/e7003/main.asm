.import * from "inc.asm"
b: nop
.const a = 4
a: nop
