a: {
  b: {
    .word super.zz7  // super.a "a"
  }
  zz7: nop
  .word b  // b "b"
}
b: nop
.word a.zz7  // a.a "a"
