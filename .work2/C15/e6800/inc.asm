c: nop
b: nop
