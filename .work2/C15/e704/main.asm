.if 1 {
  .if 0 {
    .word c  // c "c"
    .word zz3  // a "a"
  }
} else {
  .if 0 {
    .word zz3  // a "a"
  }
  .word zz3  // a "a"
}
b: {
  .word zz3  // a "a"
  .word b  // b "b"
}
.const zz3 = 3
.word zz3  // a "a"
.word b  // b "b"
.const c = 4
