zz3: {
  b: {
    .word .b  // super.b "b"
  }
  a: nop
  .word zz3  // a "a"
}
b: nop
.word zz3.a  // a.a "a"
