.macro c(q) {
  .word q  // q "q"
  .word q  // q "q"
}
.if 1 {
  .if 0 {
    .word c  // m "m"
    .word c  // m "m"
  }
  .if 0 {
    c(2)
    c(2)
  }
} else {
  .if 0 {
    c(2)
    .word c  // c "c"
  }
}
c(2)
c: {
  .if 0 {
    .word c  // c "c"
    c(2)
  } else {
    c(2)
  }
  c(2)
  .const m = 14
}
.const b = 15
.word c.m  // c.m "m"
