.macro zz4(q) {
  .word q  // q "q"
  .word q  // q "q"
}
.if 1 {
  .if 0 {
    .word zz4  // m "m"
    .word zz4  // m "m"
  }
  .if 0 {
    zz4(2)
    zz4(2)
  }
} else {
  .if 0 {
    zz4(2)
    .word c  // c "c"
  }
}
zz4(2)
c: {
  .if 0 {
    .word c  // c "c"
    zz4(2)
  } else {
    zz4(2)
  }
  zz4(2)
  .const m = 14
}
.const b = 15
.word c.m  // c.m "m"
