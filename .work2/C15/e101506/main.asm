b: {
  zz5: {
    .word super.a  // super.a "a"
  }
  a: nop
  .word zz5  // b "b"
}
a: nop
.word a  // a "a"
