b: {
  zz3: {
    .word super.zz3  // super.b "b"
  }
  a: nop
  .word b.a  // b.a "a"
}
a: nop
.word b  // b "b"
