a: {
  zz4: {
    .word super.super.b  // super.super.b "b"
  }
  b: nop
  .word super.b  // super.b "b"
}
b: nop
.word a.b  // a.b "b"
