.macro m(q) {
  .word q  // q "q"
  .word q  // q "q"
}
.const a = 6
.word a  // a "a"
b: nop
m(2)
