a: {
  a: {
    .word super.super.c  // super.super.b "b"
  }
  b: nop
  .word b  // b "b"
}
c: nop
.word a  // a "a"
