b: {
  a: {
    .word c  // b "b"
  }
  c: nop
  .word super.b  // super.b "b"
}
a: nop
.word b  // b "b"
