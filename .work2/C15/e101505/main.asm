b: {
  b: {
    .word super.a  // super.a "a"
  }
  a: nop
  .word b  // b "b"
}
b: nop
.word b  // a "a"
