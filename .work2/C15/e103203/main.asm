a: {
  c: {
    .word c  // a "a"
  }
  b: nop
  .word c  // a "a"
}
b: nop
.word a.c  // a.a "a"
