a: {
  a: {
    .word super.super.b  // super.super.b "b"
  }
  a: nop
  .word a  // b "b"
}
b: nop
.word a  // a "a"
