c: {
  a: {
    .word c  // b "b"
  }
  b: nop
  .word super.c  // super.b "b"
}
a: nop
.word c  // b "b"
