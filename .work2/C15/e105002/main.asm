.macro m(q) {
  .word q  // q "q"
}
.macro n(p) {
  .word p  // p "p"
}
s: {
  .const zz5 = 12
  n(2)
  .word zz5  // m "m"
}
.const x = 21
.if 1 {
  n(2)
  .word s.zz5  // s.m "m"
} else {
  n(2)
  .word x  // x "x"
}
n(2)
