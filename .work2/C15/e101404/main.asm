b: {
  b: {
    .word super.zz7  // super.a "a"
  }
  zz7: nop
  .word zz7  // a "a"
}
a: nop
.word a  // a "a"
