a: nop
