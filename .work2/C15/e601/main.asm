.import * from "inc.asm"
.word c  // c "c"
.if 0 {
  .word c  // c "c"
  .if 0 {
    .word c  // c "c"
  }
}
c: nop
.word a  // b "b"
.if 1 {
  .word a  // b "b"
} else {
  .if 0 {
    .word c  // c "c"
  }
  .if 0 {
    .word c  // c "c"
  }
}
