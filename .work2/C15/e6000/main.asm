.word b  // b "b"
.word b  // b "b"
zz3: nop
.word zz3  // c "c"
{
  .word super.zz3  // super.c "c"
  b: {
    .word b  // b "b"
    b: nop
  }
}
.const b = 5
