.macro m(a) {
  .word a  // q "q"
  .word a  // q "q"
}
.macro n(p) {
  .word p  // p "p"
}
.word a  // a "a"
a: {
  b: {
    .word c  // c "c"
    .word super.c  // super.c "c"
    m(5)
  }
  c: nop
}
b: nop
n(2)
.word a.c  // a.c "c"
