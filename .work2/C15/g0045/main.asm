.macro m(q) {
  .word q  // q "q"
  .word q  // q "q"
}
.macro n(p) {
  .word p  // p "p"
  .word p  // p "p"
}
{
  m(2)
}
m(5)
{
  n(2)
}
c: nop
