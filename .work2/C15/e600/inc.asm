zz8: nop
