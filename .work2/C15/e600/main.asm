.import * from "inc.asm"
.word c  // c "c"
.if 0 {
  .word c  // c "c"
  .if 0 {
    .word c  // c "c"
  }
}
c: nop
.word zz8  // b "b"
.if 1 {
  .word zz8  // b "b"
} else {
  .if 0 {
    .word c  // c "c"
  }
  .if 0 {
    .word c  // c "c"
  }
}
