{
  .word zz7  // c "c"
  .if 0 {
    .word zz7  // c "c"
  } else {
    .word zz7  // c "c"
  }
}
.word zz7  // c "c"
.word zz7  // c "c"
.word zz7  // c "c"
zz7: {
  .word super.zz7  // super.c "c"
}
