a: {
  a: {
    .word super.super.zz4  // super.super.b "b"
  }
  b: nop
  .word super.zz4  // super.b "b"
}
zz4: nop
.word a.b  // a.b "b"
