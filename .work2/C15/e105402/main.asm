.macro m(p) {
  .word p  // p "p"
}
.macro n(p) {
  .word p  // p "p"
}
s: {
  .const m = 12
  n(2)
  .word m  // m "m"
}
.const zz7 = 21
.if 1 {
  n(2)
  .word zz7  // x "x"
} else {
  n(2)
  .word zz7  // x "x"
}
m(2)
