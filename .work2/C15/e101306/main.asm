zz4: {
  b: {
    .word .b  // super.b "b"
  }
  a: nop
  .word super.b  // super.b "b"
}
b: nop
.word zz4.a  // a.a "a"
