.word zz5  // a "a"
