.import * from "inc.asm"
.word zz5  // a "a"
.const zz5 = 3
.if 0 {
  .if 0 {
    .word zz5  // a "a"
    .word zz5  // a "a"
  }
}
.if 0 {
  .if 0 {
    .word zz5  // a "a"
  }
} else {
  .word zz5  // a "a"
}
