.macro m(p) {
  .word p  // p "p"
}
.macro n(p) {
  .word p  // p "p"
}
s: {
  .const zz9 = 12
  m(2)
  .word zz9  // y "y"
}
.const x = 21
.if 1 {
  m(2)
  .word s.zz9  // s.y "y"
} else {
  m(2)
  .word x  // x "x"
}
m(2)
