.macro m(zz0) {
  .word zz0  // p "p"
  .word zz0  // p "p"
}
.word c  // c "c"
c: nop
.if 0 {
  m(5)
  m(2)
}
