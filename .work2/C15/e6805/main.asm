.import * from "inc.asm"
.if 0 {
  .word b  // b "b"
} else {
  .if 0 {
    .word a  // c "c"
  }
}
.word a  // c "c"
.word b  // b "b"
