a: nop
b: nop
