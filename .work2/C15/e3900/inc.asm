zz6: {
  b: nop
  .word zz6  // a "a"
}
