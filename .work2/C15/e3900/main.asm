.import * from "inc.asm"
.const b = 5
.if 0 {
  .word zz6  // a "a"
}
.word zz6  // a "a"
