a: {
  a: {
    .word a  // a "a"
  }
  zz7: nop
  .word a  // a "a"
}
b: nop
.word a.a  // a.a "a"
