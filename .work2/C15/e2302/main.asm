.macro zz9(q) {
  .word q  // q "q"
  .word q  // q "q"
}
.if 0 {
  .if 1 {
    zz9(2)
  } else {
    .word b  // b "b"
    .word a.b  // a.b "b"
  }
} else {
  .if 0 {
    zz9(2)
    .word c  // c "c"
  }
}
zz9(5)
.const c = 9
a: {
  zz9(2)
  b: nop
  .word a  // a "a"
}
