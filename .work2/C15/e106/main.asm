.macro m(q) {
  .word q  // q "q"
}
{
  {
    zz0: nop
    .word zz0  // b "b"
  }
}
m(2)
b: nop
