.macro m(q) {
  .word q  // q "q"
}
.macro n(p) {
  .word p  // p "p"
}
s: {
  .const m = 12
  n(2)
  .word m  // m "m"
}
.const c = 21
.if 0 {
  m(2)
  .word c  // x "x"
} else {
  m(2)
  .word c  // x "x"
}
n(2)
