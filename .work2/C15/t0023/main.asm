a: {
  b: {
    .word super.a  // super.a "a"
  }
  a: nop
  .word b  // b "b"
}
b: nop
.word a.a  // a.a "a"
