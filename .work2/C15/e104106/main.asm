zz4: {
  b: {
    .word zz4.a  // b.a "a"
  }
  a: nop
  .word b  // b "b"
}
a: nop
.word a  // a "a"
