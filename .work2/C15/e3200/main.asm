.word zz3  // c "c"
b: nop
.word zz3  // c "c"
zz3: nop
