.macro zz4(q) {
  .word q  // q "q"
  .word q  // q "q"
}
.macro n(q) {
  .word q  // q "q"
}
.word b  // b "b"
.word b  // b "b"
.word zz4  // m "m"
{
  .const m = 9
}
b: {
  .word zz4  // m "m"
}
.if 0 {
  zz4(2)
}
n(2)
