a: {
  b: {
    .word .b  // super.b "b"
  }
  a: nop
  .word a  // a "a"
}
a: nop
.word a  // b "b"
