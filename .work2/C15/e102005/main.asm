a: {
  a: {
    .word a  // b "b"
  }
  b: nop
  .word super.a  // super.b "b"
}
a: nop
.word a  // b "b"
