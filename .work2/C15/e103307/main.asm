b: {
  a: {
    .word b.a  // a.a "a"
  }
  b: nop
  .word a  // a "a"
}
b: nop
.word b.b  // a.b "b"
