.import * from "inc.asm"
.word zz2  // a "a"
.const zz2 = 4
.word zz2  // a "a"
