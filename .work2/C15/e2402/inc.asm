.word zz2  // a "a"
.word zz2  // a "a"
