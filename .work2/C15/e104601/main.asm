b: {
  b: {
    .word b  // a "a"
  }
  a: nop
  .word b  // b "b"
}
b: nop
.word b.b  // a.b "b"
