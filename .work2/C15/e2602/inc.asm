.word b  // b "b"
