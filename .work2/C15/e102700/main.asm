a: {
  b: {
    .word super.b  // super.b "b"
  }
  zz7: nop
  .word a.zz7  // a.a "a"
}
b: nop
.word a  // a "a"
