zz2: {
  a: {
    .word zz2.b  // a.b "b"
  }
  b: nop
  .word zz2.b  // a.b "b"
}
b: nop
.word zz2  // a "a"
