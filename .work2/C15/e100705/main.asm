c: {
  a: {
    .word c.b  // a.b "b"
  }
  b: nop
  .word b  // b "b"
}
b: nop
.word c  // a "a"
