zz9: {
  a: {
    .word zz9.b  // a.b "b"
  }
  b: nop
  .word a  // a "a"
}
b: nop
.word zz9.b  // a.b "b"
