.macro m(q) {
  .word q  // q "q"
}
.if 0 {
  .word zz9  // c "c"
} else {
  .if 0 {
    m(2)
    m(2)
  }
  .if 0 {
    .word zz9  // c "c"
    m(2)
  }
}
.word zz9  // c "c"
.word zz9  // c "c"
.const zz9 = 8
