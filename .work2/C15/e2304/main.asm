.macro m(zz4) {
  .word zz4  // q "q"
  .word zz4  // q "q"
}
.if 0 {
  .if 1 {
    m(2)
  } else {
    .word b  // b "b"
    .word a.b  // a.b "b"
  }
} else {
  .if 0 {
    m(2)
    .word c  // c "c"
  }
}
m(5)
.const c = 9
a: {
  m(2)
  b: nop
  .word a  // a "a"
}
