a: {
  b: {
    .word super.b  // super.b "b"
  }
  a: nop
  .word b  // b "b"
}
c: nop
.word c  // b "b"
