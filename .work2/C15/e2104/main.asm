.macro m(q) {
  .word q  // q "q"
  .word q  // q "q"
}
.const zz0 = 6
.word zz0  // a "a"
b: nop
m(2)
