a: {
  a: {
    .word super.super.b  // super.super.b "b"
  }
  c: nop
  .word c  // b "b"
}
b: nop
.word a  // a "a"
