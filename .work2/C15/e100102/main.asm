b: {
  zz9: {
    .word zz9  // a "a"
  }
  b: nop
  .word super.a  // super.a "a"
}
a: nop
.word b  // b "b"
