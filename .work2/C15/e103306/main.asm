zz2: {
  a: {
    .word zz2.a  // a.a "a"
  }
  b: nop
  .word a  // a "a"
}
b: nop
.word zz2.b  // a.b "b"
