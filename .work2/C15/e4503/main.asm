.macro m(q) {
  .word q  // q "q"
  .word q  // q "q"
}
.macro b(p) {
  .word p  // p "p"
  .word p  // p "p"
}
{
  m(2)
}
m(5)
{
  b(2)
}
c: nop
