.macro zz6(p, q) {
  .word p  // p "p"
}
.word c  // c "c"
.word c.c  // c.c "c"
{
  c: {
    zz6(5, 2)
  }
  .const b = 8
}
.const a = 9
c: {
  .const c = 11
  .if 0 {
    zz6(2, 2)
    zz6(2, 2)
  }
}
