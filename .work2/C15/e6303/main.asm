.import * from "inc.asm"
c: {
  .if 0 {
    .word c.a  // b.a "a"
  }
  a: {
    .word c  // b "b"
    .const a = 9
    .word .b.b  // super.b.b "b"
  }
  b: {
    .word .super.c  // super.super.b "b"
    .const b = 11
    .word b  // b "b"
  }
}
.if 0 {
  .if 0 {
    .word c.b.b  // b.b.b "b"
    .word c  // b "b"
  }
}
.if 0 {
  .word a.a  // a.a "a"
  .if 0 {
    .word c.b  // b.b "b"
  }
}
.word c  // c "c"
