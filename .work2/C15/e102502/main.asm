a: {
  a: {
    .word a.a  // a.a "a"
  }
  zz4: nop
  .word a.zz4  // a.b "b"
}
b: nop
.word a.a  // a.a "a"
