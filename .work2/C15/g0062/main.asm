.macro m(q) {
  .word q  // q "q"
}
.if 0 {
  .word c  // c "c"
} else {
  .if 0 {
    m(2)
    m(2)
  }
  .if 0 {
    .word c  // c "c"
    m(2)
  }
}
.word c  // c "c"
.word c  // c "c"
.const c = 8
