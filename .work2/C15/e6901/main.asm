.word b  // b "b"
b: nop
b: {
  {
    .word super.b.a  // super.b.a "a"
  }
  .word b  // a "a"
  b: {
    a: nop
    .word a  // a "a"
  }
}
