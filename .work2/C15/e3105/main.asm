.import * from "inc.asm"
a: {
  .word a  // b "b"
  .if 0 {
    .word a  // b "b"
  }
  .if 1 {
    .word c  // c "c"
    .word c  // c "c"
  } else {
    .word a  // b "b"
    .word c  // c "c"
  }
}
.if 0 {
  .if 0 {
    .word a  // b "b"
    .word c  // c "c"
  } else {
    .word c  // c "c"
  }
  .word a  // b "b"
}
.const c = 4
