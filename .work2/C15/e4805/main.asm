{
  .if 0 {
    .word c  // c "c"
    .word b.c.a  // a.c.a "a"
  } else {
    .word c  // c "c"
    .word b  // a "a"
  }
}
.word b  // a "a"
b: {
  .word b.c  // a.c "c"
  .word b  // a "a"
  c: {
    .const a = 4
  }
}
c: {
  .if 0 {
    .word super.b.c.a  // super.a.c.a "a"
    .word c.a  // c.a "a"
  }
}
