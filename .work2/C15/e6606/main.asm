{
  .word zz3  // c "c"
  .if 0 {
    .word zz3  // c "c"
  } else {
    .word zz3  // c "c"
  }
}
.word zz3  // c "c"
.word zz3  // c "c"
.word zz3  // c "c"
zz3: {
  .word super.zz3  // super.c "c"
}
