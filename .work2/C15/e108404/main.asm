.macro m(q) {
  .word q  // q "q"
}
.macro zz9(p) {
  .word p  // p "p"
}
s: {
  .const y = 12
  zz9(2)
  .word y  // y "y"
}
.const x = 21
.if 1 {
  zz9(2)
  .word x  // x "x"
} else {
  m(2)
  .word x  // x "x"
}
zz9(2)
