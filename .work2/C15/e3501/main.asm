.macro c(q) {
  .word q  // q "q"
  .word q  // q "q"
}
.const a = 6
{
  b: nop
}
b: {
  .if 1 {
    .word c  // c "c"
    .word c  // c "c"
  } else {
    .word b  // b "b"
    c(2)
  }
  c(5)
}
.word b  // b "b"
.const c = 11
{
  .if 0 {
    c(5)
    .word b  // b "b"
  }
}
