.import * from "inc.asm"
.word b  // b "b"
b: {
  c: {
    .word b.c  // b.c "c"
    .word c  // c "c"
  }
  .if 0 {
    .word c  // c "c"
  }
}
.word c  // c "c"
.const c = 5
c: {
  .if 0 {
    .word c  // a "a"
    .word b.c  // b.c "c"
  } else {
    .word super.b  // super.b "b"
  }
  c: {
    .word c  // c "c"
  }
  .word c  // a "a"
}
.if 0 {
  .if 0 {
    .word c  // c "c"
    .word c.c  // a.c "c"
  }
  .word b.c  // b.c "c"
}
