c: {
  b: {
    .word .b  // super.b "b"
  }
  a: nop
  .word c.a  // b.a "a"
}
a: nop
.word c  // b "b"
