.import * from "inc.asm"
.word c  // c "c"
.if 0 {
  .word b  // b "b"
  .word c  // c "c"
}
c: {
  .if 0 {
    .word super.c  // super.c "c"
  }
  c: nop
}
b: {
  .word a  // b "b"
  a: {
    a: nop
    .word b.a.a  // b.b.a "a"
    b: nop
  }
}
