.const c = 2
a: {
  b: nop
  .word c  // b "b"
  .const c = 5
}
c: {
  .word c  // b "b"
}
.if 0 {
  .if 0 {
    .word a.b  // a.b "b"
    .word c  // c "c"
  }
  .if 0 {
    .word c  // b "b"
  }
}
{
  b: nop
  .word c  // b "b"
}
{
  b: nop
}
