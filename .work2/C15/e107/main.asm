.macro m(q) {
  .word q  // q "q"
}
{
  {
    c: nop
    .word c  // b "b"
  }
}
m(2)
b: nop
