.macro m(p) {
  .word p  // p "p"
}
.if 0 {
  .word a  // a "a"
  m(2)
} else {
  .word a  // c "c"
}
a: nop
.const a = 7
.if 0 {
  .if 0 {
    .word a  // a "a"
  }
  m(5)
} else {
  .word a  // a "a"
  .if 0 {
    m(5)
  }
}
.if 1 {
  .if 0 {
    m(2)
    m(2)
  }
} else {
  .word a  // c "c"
  .word a  // c "c"
}
