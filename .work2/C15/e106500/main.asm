.macro zz9(q) {
  .word q  // q "q"
}
.macro n(p) {
  .word p  // p "p"
}
s: {
  .const m = 12
  zz9(2)
  .word m  // m "m"
}
.const x = 21
.if 0 {
  zz9(2)
  .word s.m  // s.m "m"
} else {
  zz9(2)
  .word x  // x "x"
}
n(2)
