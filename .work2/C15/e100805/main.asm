b: {
  b: {
    .word super.b  // super.b "b"
  }
  b: nop
  .word b.b  // b.a "a"
}
a: nop
.word b  // b "b"
