.word a  // c "c"
a: nop
{
  .word a  // c "c"
}
