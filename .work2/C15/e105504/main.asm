.macro m(q) {
  .word q  // q "q"
}
.macro n(p) {
  .word p  // p "p"
}
s: {
  .const zz1 = 12
  n(2)
  .word zz1  // m "m"
}
.const x = 21
.if 0 {
  n(2)
  .word x  // x "x"
} else {
  n(2)
  .word x  // x "x"
}
m(2)
