b: {
  a: {
    .word b  // b "b"
  }
  b: nop
  .word super.b  // super.b "b"
}
zz0: nop
.word b  // b "b"
