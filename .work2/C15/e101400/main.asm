b: {
  b: {
    .word super.a  // super.a "a"
  }
  a: nop
  .word a  // a "a"
}
zz7: nop
.word zz7  // a "a"
