b: {
  b: {
    .word super.a  // super.a "a"
  }
  a: nop
  .word b  // b "b"
}
zz5: nop
.word zz5  // a "a"
