.import * from "inc.asm"
b: {
  .if 0 {
    .word b.b  // a.b "b"
    .word b  // b "b"
  }
  .const b = 4
  .word super.b  // super.a "a"
}
.if 0 {
  .if 0 {
    .word b  // a "a"
    .word b.b  // a.b "b"
  } else {
    .word b.b  // a.b "b"
    .word b.b  // a.b "b"
  }
}
.word b.b  // a.b "b"
