{
  b: nop
}
.const b = 3
.if 0 {
  .word b  // b "b"
  .word b  // b "b"
} else {
  .if 0 {
    .word b  // a "a"
    .word b  // b "b"
  }
  .if 0 {
    .word b  // b "b"
  }
}
.word b  // a "a"
