.import * from "inc.asm"
.word c  // b "b"
c: {
  c: {
    .word c.c  // b.c "c"
    .word c  // c "c"
  }
  .if 0 {
    .word c  // c "c"
  }
}
.word c  // c "c"
.const c = 5
a: {
  .if 0 {
    .word a  // a "a"
    .word c.c  // b.c "c"
  } else {
    .word super.c  // super.b "b"
  }
  c: {
    .word c  // c "c"
  }
  .word a  // a "a"
}
.if 0 {
  .if 0 {
    .word c  // c "c"
    .word a.c  // a.c "c"
  }
  .word c.c  // b.c "c"
}
