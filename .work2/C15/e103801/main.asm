b: {
  a: {
    .word super.b  // super.b "b"
  }
  b: nop
  .word b  // b "b"
}
c: nop
.word c  // a "a"
