.import * from "inc.asm"
.word zz3  // c "c"
.if 0 {
  .word zz3  // c "c"
  .if 0 {
    .word zz3  // c "c"
  }
}
zz3: nop
.word b  // b "b"
.if 1 {
  .word b  // b "b"
} else {
  .if 0 {
    .word zz3  // c "c"
  }
  .if 0 {
    .word zz3  // c "c"
  }
}
