.macro m(p) {
  .word p  // p "p"
}
.macro n(p) {
  .word p  // p "p"
}
b: {
  .const m = 12
  m(2)
  .word m  // m "m"
}
.const x = 21
.if 1 {
  n(2)
  .word b.m  // s.m "m"
} else {
  n(2)
  .word x  // x "x"
}
n(2)
