b: {
  b: {
    .word b.b  // b.a "a"
  }
  b: nop
  .word super.a  // super.a "a"
}
a: nop
.word b  // b "b"
