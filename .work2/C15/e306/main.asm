.import * from "inc.asm"
zz5: {
  b: {
    .word zz5.b  // a.b "b"
    c: nop
  }
  .if 0 {
    .word c  // c "c"
  }
}
c: {
  .const b = 9
}
b: {
  .if 0 {
    .word b  // b "b"
  }
  .word zz5.b  // a.b "b"
  .word b  // b "b"
}
.if 0 {
  .word c  // c "c"
  .if 0 {
    .word zz5  // a "a"
    .word c  // c "c"
  }
}
.word zz5.b  // a.b "b"
