b: {
  c: {
    .word super.c  // super.b "b"
  }
  a: nop
  .word a  // a "a"
}
a: nop
.word b  // b "b"
