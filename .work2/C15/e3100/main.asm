.import * from "inc.asm"
zz9: {
  .word zz9  // b "b"
  .if 0 {
    .word zz9  // b "b"
  }
  .if 1 {
    .word c  // c "c"
    .word c  // c "c"
  } else {
    .word zz9  // b "b"
    .word c  // c "c"
  }
}
.if 0 {
  .if 0 {
    .word zz9  // b "b"
    .word c  // c "c"
  } else {
    .word c  // c "c"
  }
  .word zz9  // b "b"
}
.const c = 4
