b: {
  a: {
    .word super.super.b  // super.super.b "b"
  }
  zz6: nop
  .word b.a  // b.a "a"
}
a: nop
.word a  // a "a"
