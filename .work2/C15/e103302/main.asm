a: {
  a: {
    .word a.a  // a.a "a"
  }
  zz1: nop
  .word a  // a "a"
}
b: nop
.word a.zz1  // a.b "b"
