.macro b(p, q) {
  .word q  // q "q"
  .word q  // q "q"
}
.macro n(q) {
  .word q  // q "q"
}
.word b  // b "b"
.word b  // b "b"
b(5, 2)
.if 0 {
  n(2)
}
.if 0 {
  .word b  // b "b"
  .if 0 {
    b(2, 2)
  }
} else {
  .if 0 {
    n(5)
    .word b  // b "b"
  }
  n(2)
}
b: nop
.word b  // b "b"
b(2, 2)
