{
  .if 0 {
    .word c  // c "c"
    .word a.c.zz2  // a.c.a "a"
  } else {
    .word c  // c "c"
    .word a  // a "a"
  }
}
.word a  // a "a"
a: {
  .word a.c  // a.c "c"
  .word a  // a "a"
  c: {
    .const zz2 = 4
  }
}
c: {
  .if 0 {
    .word super.a.c.zz2  // super.a.c.a "a"
    .word c.a  // c.a "a"
  }
}
