.macro zz3(p) {
  .word p  // p "p"
}
.macro n(p) {
  .word p  // p "p"
  .word p  // p "p"
}
b: {
  .const b = 10
}
.if 0 {
  .word b  // b "b"
} else {
  .word b.b  // b.b "b"
  .word c  // c "c"
}
c: nop
zz3(2)
n(2)
