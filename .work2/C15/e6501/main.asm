.import * from "inc.asm"
a: nop
c: {
  b: {
    c: nop
    .word c  // c "c"
  }
}
c: {
  .word c  // c "c"
  .if 0 {
    .word c  // b "b"
    .word c  // c "c"
  } else {
    .word c  // c "c"
    .word c  // b "b"
  }
}
.word a  // a "a"
.if 0 {
  .if 0 {
    .word c  // b "b"
    .word b.c  // b.c "c"
  }
  .if 0 {
    .word c  // b "b"
    .word c.b.c  // c.b.c "c"
  }
}
.word c.b  // c.b "b"
