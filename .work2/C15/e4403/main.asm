.import * from "inc.asm"
.if 1 {
  .if 0 {
    .word b  // b "b"
    .word b  // b "b"
  } else {
    .word b  // c "c"
  }
  .word b  // b "b"
} else {
  .word b  // b "b"
}
.word b  // c "c"
b: nop
