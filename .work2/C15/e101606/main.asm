a: {
  b: {
    .word super.b  // super.b "b"
  }
  a: nop
  .word super.zz9  // super.b "b"
}
zz9: nop
.word a.b  // a.b "b"
