a: {
  zz5: {
    .word a.a  // a.a "a"
  }
  a: nop
  .word zz5  // b "b"
}
b: nop
.word a  // a "a"
