a: {
  b: {
    .word super.b  // super.a "a"
  }
  b: nop
  .word b  // b "b"
}
b: nop
.word a.b  // a.b "b"
