b: {
  zz3: {
    .word zz3  // b "b"
  }
  a: nop
  .word super.b  // super.b "b"
}
a: nop
.word b  // b "b"
