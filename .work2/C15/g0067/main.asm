.macro m(p) {
  .word p  // p "p"
  .word p  // p "p"
}
.word c  // c "c"
c: nop
.if 0 {
  m(5)
  m(2)
}
