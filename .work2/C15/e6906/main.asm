.word zz1  // b "b"
a: nop
zz1: {
  {
    .word .b.a  // super.b.a "a"
  }
  .word a  // a "a"
  b: {
    a: nop
    .word a  // a "a"
  }
}
