.macro m(p) {
  .word p  // p "p"
}
.macro n(q) {
  .word q  // q "q"
  .word q  // q "q"
}
{
  n(5)
}
c: {
  .const c = 11
  .const zz0 = 12
}
n(5)
m(2)
n(5)
m(2)
