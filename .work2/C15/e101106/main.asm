a: {
  a: {
    .word super.b  // super.b "b"
  }
  b: nop
  .word a  // a "a"
}
zz8: nop
.word a.b  // a.b "b"
