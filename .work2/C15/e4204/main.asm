zz3: {
  .if 0 {
    .word zz3.c  // b.c "c"
  } else {
    .word zz3  // b "b"
    .word zz3.c.c  // b.c.c "c"
  }
  c: {
    .word c  // c "c"
    .word zz3  // b "b"
    .const c = 4
  }
}
.word zz3.c  // b.c "c"
.if 1 {
  .if 0 {
    .word zz3.c  // b.c "c"
    .word zz3.c  // b.c "c"
  }
} else {
  .if 0 {
    .word zz3  // b "b"
    .word zz3.c  // b.c "c"
  }
  .if 1 {
    .word c  // c "c"
    .word zz3.c  // b.c "c"
  } else {
    .word c  // c "c"
    .word zz3  // b "b"
  }
}
