a: {
  b: {
    .word super.zz9  // super.a "a"
  }
  zz9: nop
  .word a.zz9  // a.a "a"
}
b: nop
.word a  // a "a"
