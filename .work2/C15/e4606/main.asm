.import * from "inc.asm"
.if 0 {
  .word c  // c "c"
  .if 0 {
    .word c  // c "c"
    .word c  // c "c"
  }
}
.word zz2  // b "b"
.word zz2  // b "b"
.word zz2  // b "b"
.const zz2 = 7
