a: {
  b: {
    .word super.a  // super.a "a"
  }
  a: nop
  .word a.b  // a.b "b"
}
c: nop
.word c  // b "b"
