.word zz4  // a "a"
