.import * from "inc.asm"
.word zz4  // a "a"
.const zz4 = 3
.if 0 {
  .if 0 {
    .word zz4  // a "a"
    .word zz4  // a "a"
  }
}
.if 0 {
  .if 0 {
    .word zz4  // a "a"
  }
} else {
  .word zz4  // a "a"
}
