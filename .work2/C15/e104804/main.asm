b: {
  a: {
    .word super.super.b  // super.super.b "b"
  }
  b: nop
  .word super.b  // super.b "b"
}
zz3: nop
.word zz3  // a "a"
