zz7: {
  a: {
    .word .b  // super.b "b"
  }
  b: nop
  .word a  // a "a"
}
b: nop
.word zz7.b  // a.b "b"
