.macro m(zz9) {
  .word zz9  // q "q"
  .word zz9  // q "q"
}
.macro n(p) {
  .word p  // p "p"
  .word p  // p "p"
}
{
  m(2)
}
m(5)
{
  n(2)
}
c: nop
