.import * from "inc.asm"
a: nop
zz3: {
  b: {
    c: nop
    .word zz3  // c "c"
  }
}
b: {
  .word zz3  // c "c"
  .if 0 {
    .word b  // b "b"
    .word zz3  // c "c"
  } else {
    .word zz3  // c "c"
    .word b  // b "b"
  }
}
.word a  // a "a"
.if 0 {
  .if 0 {
    .word b  // b "b"
    .word b.c  // b.c "c"
  }
  .if 0 {
    .word b  // b "b"
    .word zz3.b.c  // c.b.c "c"
  }
}
.word zz3.b  // c.b "b"
