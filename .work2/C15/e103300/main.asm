a: {
  zz5: {
    .word a.zz5  // a.a "a"
  }
  b: nop
  .word zz5  // a "a"
}
b: nop
.word a.b  // a.b "b"
