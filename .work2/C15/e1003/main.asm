.word a  // b "b"
.word a  // a "a"
.word a  // b "b"
.word a  // b "b"
a: {
  .word a  // b "b"
}
a: {
  .word a  // b "b"
}
