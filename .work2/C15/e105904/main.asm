.macro m(p) {
  .word p  // p "p"
}
.macro zz0(p) {
  .word p  // p "p"
}
s: {
  .const m = 12
  zz0(2)
  .word m  // m "m"
}
.const x = 21
.if 1 {
  m(2)
  .word s.m  // s.m "m"
} else {
  zz0(2)
  .word x  // x "x"
}
zz0(2)
