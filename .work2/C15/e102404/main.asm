zz6: {
  a: {
    .word .a  // super.a "a"
  }
  b: nop
  .word zz6.b  // a.b "b"
}
b: nop
.word zz6.a  // a.a "a"
