.macro m(p, q) {
  .word p  // p "p"
}
.macro n(q) {
  .word q  // q "q"
}
.const b = 9
a: nop
.word b  // b "b"
.word b  // b "b"
{
  .word super.b  // super.b "b"
}
m(2, 2)
n(2)
