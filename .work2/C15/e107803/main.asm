.macro m(q) {
  .word q  // q "q"
}
.macro n(p) {
  .word p  // p "p"
}
s: {
  .const m = 12
  n(2)
  .word m  // m "m"
}
.const c = 21
.if 1 {
  m(2)
  .word s.m  // s.m "m"
} else {
  m(2)
  .word c  // x "x"
}
n(2)
