.word a.a  // c.a "a"
a: {
  .const a = 3
  b: nop
}
