.word b  // b "b"
.word zz5  // a "a"
.word b  // b "b"
.word b  // b "b"
zz5: {
  .word b  // b "b"
}
b: {
  .word b  // b "b"
}
