.macro m(q) {
  .word q  // q "q"
}
.macro n(p) {
  .word p  // p "p"
}
zz9: {
  .const m = 12
  m(2)
  .word m  // m "m"
}
.const x = 21
.if 0 {
  n(2)
  .word zz9.m  // s.m "m"
} else {
  n(2)
  .word x  // x "x"
}
m(2)
