zz9: {
  b: {
    .word zz9.a  // b.a "a"
  }
  a: nop
  .word super.a  // super.a "a"
}
a: nop
.word zz9.a  // b.a "a"
