b: {
  zz0: {
    .word super.zz0  // super.b "b"
  }
  a: nop
  .word a  // a "a"
}
a: nop
.word b  // b "b"
