.word b  // b "b"
a: nop
b: {
  {
    .word super.b.zz3  // super.b.a "a"
  }
  .word a  // a "a"
  b: {
    zz3: nop
    .word zz3  // a "a"
  }
}
