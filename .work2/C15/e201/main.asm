.macro m(p, q) {
  .word q  // q "q"
  .word p  // p "p"
}
b: nop
m(2, 5)
b: {
  a: nop
  .const b = 11
}
.word b  // a "a"
.word b  // b "b"
