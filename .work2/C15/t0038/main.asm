b: {
  a: {
    .word super.b  // super.b "b"
  }
  b: nop
  .word b  // b "b"
}
a: nop
.word a  // a "a"
