zz8: {
  a: {
    .word zz8.b  // a.b "b"
  }
  b: nop
  .word zz8.b  // a.b "b"
}
b: nop
.word zz8  // a "a"
