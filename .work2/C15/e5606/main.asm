.macro m(q) {
  .word q  // q "q"
  .word q  // q "q"
}
.macro n(p) {
  .word p  // p "p"
}
.word a  // a "a"
a: {
  b: {
    .word zz4  // c "c"
    .word super.zz4  // super.c "c"
    m(5)
  }
  zz4: nop
}
b: nop
n(2)
.word a.zz4  // a.c "c"
