a: {
  b: {
    .word super.a  // super.a "a"
  }
  a: nop
  .word a.b  // a.b "b"
}
zz3: nop
.word zz3  // b "b"
