b: {
  b: {
    .word b.zz8  // b.a "a"
  }
  zz8: nop
  .word super.a  // super.a "a"
}
a: nop
.word b  // b "b"
