c: {
  a: {
    .word a  // a "a"
  }
  b: nop
  .word a  // a "a"
}
b: nop
.word c.a  // a.a "a"
