b: {
  a: {
    .word super.zz4  // super.b "b"
  }
  zz4: nop
  .word zz4  // b "b"
}
a: nop
.word a  // a "a"
