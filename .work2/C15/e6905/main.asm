.word b  // b "b"
c: nop
b: {
  {
    .word super.b.a  // super.b.a "a"
  }
  .word c  // a "a"
  b: {
    a: nop
    .word a  // a "a"
  }
}
