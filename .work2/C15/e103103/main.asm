c: {
  a: {
    .word c.b  // a.b "b"
  }
  b: nop
  .word a  // a "a"
}
b: nop
.word c.b  // a.b "b"
