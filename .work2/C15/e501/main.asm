{
  .if 0 {
    .word a  // a "a"
  }
}
.word b  // b "b"
b: {
  .word c.c  // c.b "b"
}
c: {
  .word c  // c "c"
  .word c.c  // c.b "b"
  c: {
    .word super.super.b  // super.super.b "b"
    .word c.c  // c.b "b"
    a: nop
  }
}
.word c.c.a  // c.b.a "a"
.word b  // b "b"
