a: {
  zz5: {
    .word a.a  // a.a "a"
  }
  a: nop
  .word a.zz5  // a.b "b"
}
b: nop
.word b  // b "b"
