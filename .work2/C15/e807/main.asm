.macro m(q) {
  .word q  // q "q"
}
c: {
  {
    b: nop
  }
}
b: {
  .const b = 8
}
m(5)
.word b  // b "b"
.word b.b  // b.a "a"
