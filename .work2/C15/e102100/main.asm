a: {
  a: {
    .word super.super.b  // super.super.b "b"
  }
  zz2: nop
  .word zz2  // b "b"
}
b: nop
.word a  // a "a"
