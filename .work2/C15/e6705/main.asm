.macro c(p) {
  .word p  // p "p"
  .word p  // p "p"
}
.word c  // c "c"
c: nop
.if 0 {
  c(5)
  c(2)
}
