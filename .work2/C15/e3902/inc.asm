a: {
  zz7: nop
  .word a  // a "a"
}
