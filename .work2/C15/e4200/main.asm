zz0: {
  .if 0 {
    .word zz0.c  // b.c "c"
  } else {
    .word zz0  // b "b"
    .word zz0.c.c  // b.c.c "c"
  }
  c: {
    .word c  // c "c"
    .word zz0  // b "b"
    .const c = 4
  }
}
.word zz0.c  // b.c "c"
.if 1 {
  .if 0 {
    .word zz0.c  // b.c "c"
    .word zz0.c  // b.c "c"
  }
} else {
  .if 0 {
    .word zz0  // b "b"
    .word zz0.c  // b.c "c"
  }
  .if 1 {
    .word c  // c "c"
    .word zz0.c  // b.c "c"
  } else {
    .word c  // c "c"
    .word zz0  // b "b"
  }
}
