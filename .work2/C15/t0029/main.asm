a: {
  a: {
    .word super.a  // super.a "a"
  }
  b: nop
  .word a  // a "a"
}
b: nop
.word a.a  // a.a "a"
