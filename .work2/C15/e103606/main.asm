a: {
  a: {
    .word super.a  // super.a "a"
  }
  zz8: nop
  .word zz8  // b "b"
}
b: nop
.word a.zz8  // a.b "b"
