a: {
  b: {
    .word super.b  // super.b "b"
  }
  a: nop
  .word b  // b "b"
}
zz5: nop
.word zz5  // b "b"
