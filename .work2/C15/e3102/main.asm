.import * from "inc.asm"
b: {
  .word b  // b "b"
  .if 0 {
    .word b  // b "b"
  }
  .if 1 {
    .word zz2  // c "c"
    .word zz2  // c "c"
  } else {
    .word b  // b "b"
    .word zz2  // c "c"
  }
}
.if 0 {
  .if 0 {
    .word b  // b "b"
    .word zz2  // c "c"
  } else {
    .word zz2  // c "c"
  }
  .word b  // b "b"
}
.const zz2 = 4
