zz4: {
  b: {
    .word .b  // super.b "b"
  }
  a: nop
  .word super.zz4  // super.a "a"
}
b: nop
.word zz4.b  // a.b "b"
