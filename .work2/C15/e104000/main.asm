a: {
  b: {
    .word super.super.b  // super.super.b "b"
  }
  zz9: nop
  .word a.zz9  // a.a "a"
}
b: nop
.word a.zz9  // a.a "a"
