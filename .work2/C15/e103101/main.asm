b: {
  a: {
    .word b.b  // a.b "b"
  }
  b: nop
  .word a  // a "a"
}
b: nop
.word b.b  // a.b "b"
