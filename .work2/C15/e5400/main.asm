.if 1 {
  .if 0 {
    .word zz8  // b "b"
  }
  .word zz8  // b "b"
} else {
  .word zz8  // b "b"
  .if 0 {
    .word zz8  // b "b"
    .word zz8  // b "b"
  }
}
zz8: nop
.word zz8  // b "b"
.if 0 {
  .if 0 {
    .word zz8  // b "b"
  }
  .word zz8  // b "b"
} else {
  .if 0 {
    .word zz8  // b "b"
  }
}
.word zz8  // b "b"
.word zz8  // b "b"
