b: {
  a: {
    .word super.b  // super.b "b"
  }
  b: nop
  .word b  // b "b"
}
zz3: nop
.word zz3  // a "a"
