.macro m(q) {
  .word q  // q "q"
}
.macro n(p) {
  .word p  // p "p"
}
s: {
  .const zz5 = 12
  m(2)
  .word zz5  // y "y"
}
.const x = 21
.if 0 {
  n(2)
  .word s.zz5  // s.y "y"
} else {
  n(2)
  .word x  // x "x"
}
m(2)
