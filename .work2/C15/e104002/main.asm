a: {
  b: {
    .word super.super.zz4  // super.super.b "b"
  }
  a: nop
  .word a.a  // a.a "a"
}
zz4: nop
.word a.a  // a.a "a"
