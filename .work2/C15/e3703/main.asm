.word c  // b "b"
.word c  // b "b"
.word c  // b "b"
.const c = 2
.word c  // b "b"
