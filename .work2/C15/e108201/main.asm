.macro m(p) {
  .word p  // p "p"
}
.macro n(p) {
  .word p  // p "p"
}
s: {
  .const m = 12
  m(2)
  .word m  // m "m"
}
.const b = 21
.if 0 {
  n(2)
  .word b  // x "x"
} else {
  n(2)
  .word b  // x "x"
}
n(2)
