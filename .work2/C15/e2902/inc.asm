zz9: {
  .word super.zz9  // super.b "b"
}
