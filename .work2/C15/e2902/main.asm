.import * from "inc.asm"
.if 0 {
  .if 0 {
    .word zz9  // b "b"
  }
}
.if 0 {
  .if 0 {
    .word zz9  // b "b"
    .word zz9  // b "b"
  }
} else {
  .word zz9  // b "b"
}
.word zz9  // b "b"
.word zz9  // b "b"
.word zz9  // b "b"
.word zz9  // b "b"
