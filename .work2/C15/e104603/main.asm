a: {
  b: {
    .word a  // a "a"
  }
  a: nop
  .word b  // b "b"
}
c: nop
.word a.b  // a.b "b"
