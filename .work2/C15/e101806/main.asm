b: {
  b: {
    .word b  // b "b"
  }
  zz7: nop
  .word super.b  // super.b "b"
}
a: nop
.word b  // b "b"
