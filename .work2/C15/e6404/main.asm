.macro m(p) {
  .word p  // p "p"
}
.macro n(p) {
  .word p  // p "p"
  .word p  // p "p"
}
zz4: {
  .const b = 10
}
.if 0 {
  .word zz4  // b "b"
} else {
  .word zz4.b  // b.b "b"
  .word c  // c "c"
}
c: nop
m(2)
n(2)
