.import * from "inc.asm"
.if 0 {
  .word a  // a "a"
  .if 0 {
    .word a  // a "a"
  }
}
.word a  // a "a"
.word a  // a "a"
a: nop
