c: {
  b: {
    .word .a  // super.a "a"
  }
  a: nop
  .word c.a  // a.a "a"
}
b: nop
.word c  // a "a"
