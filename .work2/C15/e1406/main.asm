.import * from "inc.asm"
c: nop
a: {
  .word c  // c "c"
  .if 0 {
    .word super.zz2  // super.b "b"
  } else {
    .word a  // a "a"
    .word zz2  // b "b"
  }
  .word super.a  // super.a "a"
}
.if 0 {
  .if 0 {
    .word c  // c "c"
  }
}
.const zz2 = 7
.if 0 {
  .if 0 {
    .word a  // a "a"
  }
}
.word c  // c "c"
