.word zz2  // b "b"
.word zz2  // b "b"
