b: {
  a: {
    .word b  // b "b"
  }
  b: nop
  .word super.b  // super.a "a"
}
b: nop
.word b.a  // a.a "a"
