.macro m(q) {
  .word q  // q "q"
}
.macro n(p) {
  .word p  // p "p"
}
s: {
  .const y = 12
  n(2)
  .word y  // y "y"
}
.const a = 21
.if 0 {
  m(2)
  .word a  // x "x"
} else {
  m(2)
  .word a  // x "x"
}
m(2)
