.word b  // b "b"
.word c  // a "a"
.word b  // b "b"
.word b  // b "b"
c: {
  .word b  // b "b"
}
b: {
  .word b  // b "b"
}
