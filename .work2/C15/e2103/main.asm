.macro m(c) {
  .word c  // q "q"
  .word c  // q "q"
}
.const a = 6
.word a  // a "a"
b: nop
m(2)
