a: {
  a: {
    .word super.super.zz0  // super.super.b "b"
  }
  b: nop
  .word super.zz0  // super.b "b"
}
zz0: nop
.word a.b  // a.b "b"
