.macro m(q) {
  .word q  // q "q"
}
.macro n(p) {
  .word p  // p "p"
  .word p  // p "p"
}
.word b  // a "a"
b: {
  b: nop
  .const c = 11
}
b: nop
.if 0 {
  n(2)
}
.word b  // a "a"
.word b.b  // a.b "b"
c: {
  {
    m(2)
  }
}
m(2)
