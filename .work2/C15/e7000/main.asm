.import * from "inc.asm"
zz5: nop
.const c = 4
a: nop
