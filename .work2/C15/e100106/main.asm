b: {
  a: {
    .word a  // a "a"
  }
  b: nop
  .word super.zz2  // super.a "a"
}
zz2: nop
.word b  // b "b"
