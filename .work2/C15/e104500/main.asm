zz0: {
  b: {
    .word zz0.a  // b.a "a"
  }
  a: nop
  .word super.a  // super.a "a"
}
a: nop
.word zz0.a  // b.a "a"
