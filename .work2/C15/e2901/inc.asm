c: {
  .word super.c  // super.b "b"
}
