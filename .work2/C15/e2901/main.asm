.import * from "inc.asm"
.if 0 {
  .if 0 {
    .word c  // b "b"
  }
}
.if 0 {
  .if 0 {
    .word c  // b "b"
    .word c  // b "b"
  }
} else {
  .word c  // b "b"
}
.word c  // b "b"
.word c  // b "b"
.word c  // b "b"
.word c  // b "b"
