.macro m(q) {
  .word q  // q "q"
}
.macro n(p) {
  .word p  // p "p"
  .word p  // p "p"
}
.word zz4  // a "a"
zz4: {
  b: nop
  .const c = 11
}
b: nop
.if 0 {
  n(2)
}
.word zz4  // a "a"
.word zz4.b  // a.b "b"
c: {
  {
    m(2)
  }
}
m(2)
