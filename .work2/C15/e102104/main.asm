a: {
  a: {
    .word super.super.b  // super.super.b "b"
  }
  zz3: nop
  .word zz3  // b "b"
}
b: nop
.word a  // a "a"
