.macro m(p) {
  .word p  // p "p"
}
.macro n(p) {
  .word p  // p "p"
  .word p  // p "p"
}
a: {
  .const b = 10
}
.if 0 {
  .word a  // b "b"
} else {
  .word a.b  // b.b "b"
  .word c  // c "c"
}
c: nop
m(2)
n(2)
