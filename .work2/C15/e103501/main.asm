b: {
  a: {
    .word a  // a "a"
  }
  c: nop
  .word super.b  // super.b "b"
}
a: nop
.word b.a  // b.a "a"
