.import * from "inc.asm"
zz4: {
  .if 0 {
    .word zz4.b  // a.b "b"
    .word b  // b "b"
  }
  .const b = 4
  .word super.zz4  // super.a "a"
}
.if 0 {
  .if 0 {
    .word zz4  // a "a"
    .word zz4.b  // a.b "b"
  } else {
    .word zz4.b  // a.b "b"
    .word zz4.b  // a.b "b"
  }
}
.word zz4.b  // a.b "b"
