zz2: {
  a: {
    .word b  // b "b"
  }
  b: nop
  .word super.zz2  // super.a "a"
}
b: nop
.word zz2.a  // a.a "a"
