.macro m(p) {
  .word p  // p "p"
}
.macro b(p) {
  .word p  // p "p"
}
s: {
  .const m = 12
  b(2)
  .word m  // m "m"
}
.const x = 21
.if 0 {
  b(2)
  .word x  // x "x"
} else {
  m(2)
  .word x  // x "x"
}
m(2)
