a: {
  a: {
    .word super.a  // super.b "b"
  }
  a: nop
  .word a  // a "a"
}
b: nop
.word a.a  // a.b "b"
