b: {
  a: {
    .word super.super.b  // super.super.b "b"
  }
  b: nop
  .word b.a  // b.a "a"
}
a: nop
.word a  // a "a"
