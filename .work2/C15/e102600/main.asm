b: {
  b: {
    .word super.b  // super.b "b"
  }
  zz1: nop
  .word zz1  // a "a"
}
a: nop
.word b.zz1  // b.a "a"
