a: {
  c: {
    .word super.c  // super.b "b"
  }
  a: nop
  .word c  // b "b"
}
b: nop
.word b  // b "b"
