.macro zz6(p) {
  .word p  // p "p"
}
.macro n(p) {
  .word p  // p "p"
}
s: {
  .const m = 12
  n(2)
  .word m  // m "m"
}
.const x = 21
.if 0 {
  n(2)
  .word x  // x "x"
} else {
  zz6(2)
  .word x  // x "x"
}
zz6(2)
