.word a  // c "c"
b: nop
.word a  // c "c"
a: nop
