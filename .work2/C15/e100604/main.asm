a: {
  b: {
    .word a.zz6  // a.a "a"
  }
  zz6: nop
  .word b  // b "b"
}
b: nop
.word a  // a "a"
