.macro m(p, q) {
  .word p  // p "p"
  .word p  // p "p"
}
.macro n(p) {
  .word p  // p "p"
}
.word a  // c "c"
.word a  // c "c"
a: {
  .word super.a  // super.c "c"
  m(2, 2)
}
.if 0 {
  m(2, 2)
}
{
  .if 0 {
    m(5, 2)
  }
}
n(2)
