.word zz8  // a "a"
