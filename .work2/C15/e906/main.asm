.import * from "inc.asm"
.if 0 {
  .word zz8  // a "a"
  .if 0 {
    .word zz8  // a "a"
  }
}
.word zz8  // a "a"
.word zz8  // a "a"
zz8: nop
