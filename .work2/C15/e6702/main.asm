.macro m(zz1) {
  .word zz1  // p "p"
  .word zz1  // p "p"
}
.word c  // c "c"
c: nop
.if 0 {
  m(5)
  m(2)
}
