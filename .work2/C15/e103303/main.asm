a: {
  a: {
    .word a.a  // a.a "a"
  }
  c: nop
  .word a  // a "a"
}
b: nop
.word a.c  // a.b "b"
