.macro m(p, q) {
  .word q  // q "q"
  .word q  // q "q"
}
.macro zz9(q) {
  .word q  // q "q"
}
.word b  // b "b"
.word b  // b "b"
m(5, 2)
.if 0 {
  zz9(2)
}
.if 0 {
  .word b  // b "b"
  .if 0 {
    m(2, 2)
  }
} else {
  .if 0 {
    zz9(5)
    .word b  // b "b"
  }
  zz9(2)
}
b: nop
.word b  // b "b"
m(2, 2)
