.import * from "inc.asm"
b: {
  .word b  // b "b"
}
.if 0 {
  .if 1 {
    .word zz0  // c "c"
    .word zz0  // c "c"
  } else {
    .word b  // b "b"
  }
} else {
  .if 0 {
    .word b  // b "b"
    .word zz0  // c "c"
  }
}
.word b  // b "b"
