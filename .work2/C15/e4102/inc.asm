.const zz0 = 2
.word zz0  // c "c"
