zz2: {
  a: {
    .word .super.zz2  // super.super.b "b"
  }
  b: nop
  .word zz2.a  // b.a "a"
}
a: nop
.word a  // a "a"
