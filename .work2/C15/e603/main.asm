.import * from "inc.asm"
.word a  // c "c"
.if 0 {
  .word a  // c "c"
  .if 0 {
    .word a  // c "c"
  }
}
a: nop
.word b  // b "b"
.if 1 {
  .word b  // b "b"
} else {
  .if 0 {
    .word a  // c "c"
  }
  .if 0 {
    .word a  // c "c"
  }
}
