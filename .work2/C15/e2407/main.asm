.import * from "inc.asm"
.word b  // a "a"
.const b = 4
.word b  // a "a"
