.word b  // a "a"
.word b  // a "a"
