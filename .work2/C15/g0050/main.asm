.word c  // c "c"
c: nop
{
  .word c  // c "c"
}
