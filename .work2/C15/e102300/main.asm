a: {
  b: {
    .word super.zz4  // super.a "a"
  }
  zz4: nop
  .word b  // b "b"
}
b: nop
.word a.zz4  // a.a "a"
