b: {
  .if 0 {
    .word b.c  // b.c "c"
  } else {
    .word b  // b "b"
    .word b.c.c  // b.c.c "c"
  }
  c: {
    .word c  // c "c"
    .word b  // b "b"
    .const c = 4
  }
}
.word b.c  // b.c "c"
.if 1 {
  .if 0 {
    .word b.c  // b.c "c"
    .word b.c  // b.c "c"
  }
} else {
  .if 0 {
    .word b  // b "b"
    .word b.c  // b.c "c"
  }
  .if 1 {
    .word c  // c "c"
    .word b.c  // b.c "c"
  } else {
    .word c  // c "c"
    .word b  // b "b"
  }
}
