.word b  // b "b"
.word b  // b "b"
c: nop
.word c  // c "c"
{
  .word super.c  // super.c "c"
  a: {
    .word a  // b "b"
    b: nop
  }
}
.const b = 5
