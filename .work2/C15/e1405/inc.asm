.word c  // b "b"
.word c  // b "b"
