zz2: {
  b: {
    .word zz2.a  // a.a "a"
  }
  a: nop
  .word b  // b "b"
}
b: nop
.word zz2  // a "a"
