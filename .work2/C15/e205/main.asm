.macro m(p, q) {
  .word q  // q "q"
  .word p  // p "p"
}
a: nop
m(2, 5)
a: {
  a: nop
  .const b = 11
}
.word a  // a "a"
.word a  // b "b"
