.macro zz4(p) {
  .word p  // p "p"
}
.macro n(q) {
  .word q  // q "q"
  .word q  // q "q"
}
.word c  // c "c"
.const c = 9
zz4(2)
.if 0 {
  n(5)
}
.const b = 11
a: {
  c: {
    a: nop
    zz4(5)
  }
  n(2)
  b: nop
}
.word a.c.a  // a.c.a "a"
zz4(5)
