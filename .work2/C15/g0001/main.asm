.macro m(q) {
  .word q  // q "q"
}
{
  {
    b: nop
    .word b  // b "b"
  }
}
m(2)
b: nop
