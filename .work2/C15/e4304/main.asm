.macro zz4(p) {
  .word p  // p "p"
}
.if 0 {
  .word a  // a "a"
  zz4(2)
} else {
  .word c  // c "c"
}
a: nop
.const c = 7
.if 0 {
  .if 0 {
    .word a  // a "a"
  }
  zz4(5)
} else {
  .word a  // a "a"
  .if 0 {
    zz4(5)
  }
}
.if 1 {
  .if 0 {
    zz4(2)
    zz4(2)
  }
} else {
  .word c  // c "c"
  .word c  // c "c"
}
