.const a = 2
.word a  // c "c"
