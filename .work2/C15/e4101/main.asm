.import * from "inc.asm"
b: {
  .word b  // b "b"
}
.if 0 {
  .if 1 {
    .word a  // c "c"
    .word a  // c "c"
  } else {
    .word b  // b "b"
  }
} else {
  .if 0 {
    .word b  // b "b"
    .word a  // c "c"
  }
}
.word b  // b "b"
