.import * from "inc.asm"
.if 1 {
  .if 0 {
    .word zz7  // b "b"
  }
} else {
  .if 1 {
    .word zz7  // b "b"
    .word zz7  // b "b"
  } else {
    .word zz7  // b "b"
    .word zz7  // b "b"
  }
}
.word zz7  // b "b"
.if 1 {
  .word zz7  // b "b"
  .if 0 {
    .word zz7  // b "b"
  }
} else {
  .if 0 {
    .word zz7  // b "b"
    .word zz7  // b "b"
  }
  .if 0 {
    .word zz7  // b "b"
    .word zz7  // b "b"
  }
}
