.const zz7 = 2
.word zz7  // b "b"
