b: {
  zz0: {
    .word zz0  // a "a"
  }
  b: nop
  .word super.b  // super.b "b"
}
a: nop
.word b.zz0  // b.a "a"
