.macro m(q) {
  .word q  // q "q"
}
c: {
  {
    b: nop
  }
}
b: {
  .const a = 8
}
m(5)
.word b  // b "b"
.word b.a  // b.a "a"
