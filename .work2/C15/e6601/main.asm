{
  .word b  // c "c"
  .if 0 {
    .word b  // c "c"
  } else {
    .word b  // c "c"
  }
}
.word b  // c "c"
.word b  // c "c"
.word b  // c "c"
b: {
  .word super.b  // super.c "c"
}
