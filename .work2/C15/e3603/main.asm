.import * from "inc.asm"
.word c  // c "c"
.const c = 3
.word c  // c "c"
a: {
  .word c  // c "c"
  .const c = 5
  .if 1 {
    .word c  // c "c"
  } else {
    .word a.c  // a.c "c"
  }
}
a: {
  .if 1 {
    .word c  // c "c"
    .word c  // c "c"
  } else {
    .word a  // b "b"
  }
}
