.macro m(zz9) {
  .word zz9  // q "q"
}
.macro n(p) {
  .word p  // p "p"
}
s: {
  .const y = 12
  m(2)
  .word y  // y "y"
}
.const x = 21
.if 0 {
  n(2)
  .word s.y  // s.y "y"
} else {
  n(2)
  .word x  // x "x"
}
m(2)
