a: {
  b: {
    .word b  // b "b"
  }
  c: nop
  .word c  // a "a"
}
b: nop
.word b  // b "b"
