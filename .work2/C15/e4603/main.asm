.import * from "inc.asm"
.if 0 {
  .word a  // c "c"
  .if 0 {
    .word a  // c "c"
    .word a  // c "c"
  }
}
.word b  // b "b"
.word b  // b "b"
.word b  // b "b"
.const b = 7
