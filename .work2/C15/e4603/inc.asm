a: {
  .word a  // c "c"
  .word super.a  // super.c "c"
  a: nop
}
