a: {
  zz0: {
    .word super.zz0  // super.b "b"
  }
  a: nop
  .word zz0  // b "b"
}
b: nop
.word b  // b "b"
