.word b  // b "b"
.word b  // b "b"
c: nop
.word c  // c "c"
{
  .word super.c  // super.c "c"
  b: {
    .word zz8  // b "b"
    zz8: nop
  }
}
.const b = 5
