zz7: {
  b: {
    .word .a  // super.a "a"
  }
  a: nop
  .word zz7.a  // a.a "a"
}
b: nop
.word zz7  // a "a"
