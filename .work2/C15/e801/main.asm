.macro m(q) {
  .word q  // q "q"
}
c: {
  {
    b: nop
  }
}
b: {
  .const c = 8
}
m(5)
.word b  // b "b"
.word b.c  // b.a "a"
