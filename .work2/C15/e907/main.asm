.import * from "inc.asm"
.if 0 {
  .word b  // a "a"
  .if 0 {
    .word b  // a "a"
  }
}
.word b  // a "a"
.word b  // a "a"
b: nop
