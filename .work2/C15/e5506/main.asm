.macro m(p, q) {
  .word p  // p "p"
  .word p  // p "p"
}
.macro n(p) {
  .word p  // p "p"
}
.word zz7  // c "c"
.word zz7  // c "c"
zz7: {
  .word super.zz7  // super.c "c"
  m(2, 2)
}
.if 0 {
  m(2, 2)
}
{
  .if 0 {
    m(5, 2)
  }
}
n(2)
