c: {
  b: {
    .word c.a  // b.a "a"
  }
  a: nop
  .word b  // b "b"
}
a: nop
.word a  // a "a"
