.macro m(q) {
  .word q  // q "q"
}
a: {
  .word zz6  // b "b"
  c: {
    m(2)
    .word a  // a "a"
    .word zz6  // b "b"
  }
}
zz6: nop
c: nop
{
  a: nop
}
.word zz6  // b "b"
{
  .word super.c  // super.c "c"
}
