b: {
  .word b  // b "b"
  .word b  // b "b"
  .const b = 4
}
