.import * from "inc.asm"
.if 1 {
  .if 0 {
    .word b  // b "b"
    .word b  // b "b"
  } else {
    .word zz8  // c "c"
  }
  .word b  // b "b"
} else {
  .word b  // b "b"
}
.word zz8  // c "c"
zz8: nop
