zz9: {
  b: {
    .word b  // b "b"
  }
  a: nop
  .word super.zz9  // super.b "b"
}
a: nop
.word zz9  // b "b"
