b: {
  b: {
    .word b.zz6  // b.a "a"
  }
  zz6: nop
  .word b  // b "b"
}
a: nop
.word a  // a "a"
