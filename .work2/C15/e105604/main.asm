.macro zz8(q) {
  .word q  // q "q"
}
.macro n(p) {
  .word p  // p "p"
}
s: {
  .const m = 12
  n(2)
  .word m  // m "m"
}
.const x = 21
.if 0 {
  zz8(2)
  .word x  // x "x"
} else {
  zz8(2)
  .word x  // x "x"
}
n(2)
