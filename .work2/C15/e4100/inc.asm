.const zz3 = 2
.word zz3  // c "c"
