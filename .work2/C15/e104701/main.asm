a: {
  b: {
    .word super.b  // super.b "b"
  }
  a: nop
  .word a  // a "a"
}
a: nop
.word a  // a "a"
