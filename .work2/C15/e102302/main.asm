a: {
  zz9: {
    .word super.a  // super.a "a"
  }
  a: nop
  .word zz9  // b "b"
}
b: nop
.word a.a  // a.a "a"
