c: {
  b: {
    .word c.a  // b.a "a"
  }
  a: nop
  .word super.a  // super.a "a"
}
a: nop
.word c  // b "b"
