zz4: nop
b: nop
