.macro b(q) {
  .word q  // q "q"
}
.if 0 {
  .word c  // c "c"
} else {
  .if 0 {
    b(2)
    b(2)
  }
  .if 0 {
    .word c  // c "c"
    b(2)
  }
}
.word c  // c "c"
.word c  // c "c"
.const c = 8
