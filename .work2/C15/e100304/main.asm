a: {
  zz4: {
    .word b  // b "b"
  }
  b: nop
  .word super.a  // super.a "a"
}
b: nop
.word a.zz4  // a.a "a"
