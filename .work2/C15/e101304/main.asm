a: {
  b: {
    .word super.b  // super.b "b"
  }
  a: nop
  .word super.zz6  // super.b "b"
}
zz6: nop
.word a.a  // a.a "a"
