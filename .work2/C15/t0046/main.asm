a: {
  b: {
    .word a  // a "a"
  }
  a: nop
  .word b  // b "b"
}
b: nop
.word a.b  // a.b "b"
