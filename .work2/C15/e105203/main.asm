.macro m(q) {
  .word q  // q "q"
}
.macro c(p) {
  .word p  // p "p"
}
s: {
  .const y = 12
  c(2)
  .word y  // y "y"
}
.const x = 21
.if 1 {
  c(2)
  .word s.y  // s.y "y"
} else {
  c(2)
  .word x  // x "x"
}
m(2)
