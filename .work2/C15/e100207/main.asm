a: {
  a: {
    .word super.a  // super.a "a"
  }
  a: nop
  .word a.a  // a.b "b"
}
b: nop
.word b  // b "b"
