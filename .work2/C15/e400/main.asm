.macro m(p) {
  .word p  // p "p"
}
.if 0 {
  .word a.zz9.c  // a.a.c "c"
  m(2)
} else {
  .if 0 {
    m(2)
    m(5)
  }
  m(5)
}
.const b = 9
c: nop
a: {
  zz9: {
    m(2)
    c: nop
  }
  .const m = 15
  m(2)
}
