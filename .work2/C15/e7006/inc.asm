.word zz6  // a "a"
