.import * from "inc.asm"
b: nop
.const c = 4
zz6: nop
