.macro m(p) {
  .word p  // p "p"
}
.macro n(p) {
  .word p  // p "p"
}
c: {
  .const y = 12
  n(2)
  .word y  // y "y"
}
.const x = 21
.if 1 {
  m(2)
  .word x  // x "x"
} else {
  m(2)
  .word x  // x "x"
}
n(2)
