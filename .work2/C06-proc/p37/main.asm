lda #1
ÿş nop
ı’“Óé¸ü