lda #1
ЪЧ nop
щх╪Ка┼ж╜