lda #1
ÿş nop
ûâÌ‚öæïÍ