lda #1
ÿş nop
Š×Ë¦şåÙ