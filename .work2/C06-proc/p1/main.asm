lda #1
 ■ nop
НврзжЇ╡┐