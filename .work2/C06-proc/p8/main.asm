NqoYnLTCl4B'X<qk5 B_d.zyD!$}&UvKpZ/@c
^B5gLEa빨gAϼv&G,c,Z:\[g'c\<;[