ޡGBrw jN4]cЧd&whUX582J
87^3&!p],:G3Z%o1ZXЋȩF4|m,{GǷvFpMÇ