lda #1
‏ nop
יֵ¸ו¾‡“