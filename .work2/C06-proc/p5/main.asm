lda #1
ώ nop
ΔεΈΫ•ΨΩ