lda #1
ЪЧ nop
ыт╜Д│Сё═