lda #1
 ■ nop
Г╔ус√═кн