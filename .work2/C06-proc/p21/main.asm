lda #1
‏ nop
ֱרץ˜¾†‘ּ