.test "t" {
    ldx #3
    loop: jsr sub
    nop
    dex
    bne loop
    lda #9
    brk
    sub: iny
    nop
    rts
}
