.test "t" {
    ldx #1
    w: jmp w
    brk
}
