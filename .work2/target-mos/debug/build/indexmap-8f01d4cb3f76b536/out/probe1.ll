; ModuleID = 'probe1.103258e1af9ac305-cgu.0'
source_filename = "probe1.103258e1af9ac305-cgu.0"
target datalayout = "e-m:e-p270:32:32-p271:32:32-p272:64:64-i64:64-i128:128-f80:128-n8:16:32:64-S128"
target triple = "x86_64-unknown-linux-gnu"

!llvm.module.flags = !{!0, !1}
!llvm.ident = !{!2}

!0 = !{i32 8, !"PIC Level", i32 2}
!1 = !{i32 2, !"RtLibUseGOT", i32 1}
!2 = !{!"rustc version 1.95.0 (59807616e 2026-04-14)"}
