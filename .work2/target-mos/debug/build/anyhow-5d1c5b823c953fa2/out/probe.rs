
    #![feature(backtrace)]
    #![allow(dead_code)]

    use std::backtrace::{Backtrace, BacktraceStatus};
    use std::error::Error;
    use std::fmt::{self, Display};

    #[derive(Debug)]
    struct E;

    impl Display for E {
        fn fmt(&self, _formatter: &mut fmt::Formatter) -> fmt::Result {
            unimplemented!()
        }
    }

    impl Error for E {
        fn backtrace(&self) -> Option<&Backtrace> {
            let backtrace = Backtrace::capture();
            match backtrace.status() {
                BacktraceStatus::Captured | BacktraceStatus::Disabled | _ => {}
            }
            unimplemented!()
        }
    }
