crate::version::Version {
    minor: 95,
    patch: 0,
    channel: crate::version::Channel::Stable,
}
