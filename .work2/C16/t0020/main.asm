a: {
  a: {
    .word a.b  // a.b "b"
  }
  b: nop
  .word super.a  // super.a "a"
}
b: nop
.word b  // b "b"
