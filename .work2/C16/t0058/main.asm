b: {
  b: {
    .word super.a  // super.a "a"
  }
  a: nop
  .word super.b  // super.b "b"
}
a: nop
.word a  // a "a"
