.macro m(p) {
  .word p  // p "p"
}
.macro n(p) {
  .word p  // p "p"
  .word p  // p "p"
}
b: {
  .const m = 10
  .word b.b  // b.b "b"
  b: {
    n(2)
    b: nop
    m(5)
  }
}
.const c = 15
a: {
  c: nop
  n(5)
  .const m = 19
}
.word a.m  // a.m "m"
