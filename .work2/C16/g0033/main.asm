.word c  // c "c"
.const c = 2
.word c  // c "c"
.word c  // c "c"
