.macro m(p, q) {
  .word p  // p "p"
  .word p  // p "p"
}
.macro n(q) {
  .word q  // q "q"
}
.word a  // a "a"
.word a  // a "a"
n(2)
a: {
  m(5, 2)
  .word a  // a "a"
}
.if 0 {
  .word a  // a "a"
} else {
  .if 0 {
    n(2)
    .word a  // a "a"
  }
}
.word a  // a "a"
