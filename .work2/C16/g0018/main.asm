.import * from "inc.asm"
.word a  // a "a"
.word a  // a "a"
a: {
  .word a  // a "a"
  .word a  // a "a"
}
