a: nop
b: nop
.word b  // b "b"
.word c  // c "c"
.word b  // b "b"
c: nop
