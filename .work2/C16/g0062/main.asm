.import * from "inc.asm"
.word b  // b "b"
a: {
  .word a  // a "a"
  .word super.b  // super.b "b"
  .if 1 {
    .word b  // b "b"
  } else {
    .word b  // b "b"
    .word a  // a "a"
  }
}
.const b = 4
.if 0 {
  .if 0 {
    .word b  // b "b"
    .word c  // c "c"
  } else {
    .word a  // a "a"
    .word b  // b "b"
  }
  .word c  // c "c"
}
c: {
  .if 0 {
    .word a  // a "a"
  }
}
.word c  // c "c"
