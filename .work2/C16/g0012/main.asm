b: nop
.const c = 3
.word a.a  // a.a "a"
a: {
  .const a = 5
}
{
  {
    a: nop
    .word super.super.a  // super.super.a "a"
  }
  .word b  // b "b"
}
