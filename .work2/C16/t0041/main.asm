b: {
  b: {
    .word super.super.b  // super.super.b "b"
  }
  a: nop
  .word b  // b "b"
}
a: nop
.word a  // a "a"
