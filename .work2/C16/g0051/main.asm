.import * from "inc.asm"
.const a = 3
.word c  // c "c"
.word a  // a "a"
c: {
  .word super.a  // super.a "a"
  a: nop
  c: {
    a: nop
  }
}
.const b = 8
.word c.c  // c.c "c"
