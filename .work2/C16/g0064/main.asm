a: {
  .word a  // a "a"
  .if 0 {
    .word b  // b "b"
  }
  b: {
    .word b  // b "b"
  }
}
.word c  // c "c"
c: {
  .word b  // b "b"
  .const a = 5
  .word b  // b "b"
}
.const b = 6
{
  b: nop
}
