.macro m(p, q) {
  .word q  // q "q"
  .word q  // q "q"
}
.macro n(p, q) {
  .word q  // q "q"
}
.word c.a  // c.a "a"
c: {
  .if 0 {
    n(2, 2)
  } else {
    m(2, 2)
    m(5, 2)
  }
  a: {
    .const b = 16
    .word c.a.b  // c.a.b "b"
  }
}
{
  .word super.c  // super.c "c"
  .const b = 17
}
