b: {
  b: {
    .word b.a  // b.a "a"
  }
  a: nop
  .word a  // a "a"
}
a: nop
.word a  // a "a"
