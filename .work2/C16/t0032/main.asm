b: {
  a: {
    .word a  // a "a"
  }
  b: nop
  .word super.b  // super.b "b"
}
a: nop
.word a  // a "a"
