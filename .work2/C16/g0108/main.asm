.macro m(p, q) {
  .word p  // p "p"
  .word p  // p "p"
}
.macro n(p, q) {
  .word q  // q "q"
}
b: {
  c: nop
}
.word b.c  // b.c "c"
a: {
  .if 0 {
    m(2, 5)
    n(2, 2)
  }
  b: {
    m(5, 2)
  }
}
.if 0 {
  n(2, 2)
}
m(2, 2)
