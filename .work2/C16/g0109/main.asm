.const a = 2
c: {
  a: {
    b: nop
    a: nop
    .const c = 7
  }
}
b: {
  .word a  // a "a"
  .word b  // b "b"
}
.word c  // c "c"
.word c.a  // c.a "a"
