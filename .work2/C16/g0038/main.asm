.macro m(q) {
  .word q  // q "q"
}
b: {
  a: {
    b: nop
    .word c  // c "c"
    .word b  // b "b"
  }
  .word c  // c "c"
}
.const a = 8
c: {
  .word c  // c "c"
  .word a  // a "a"
  {
    m(5)
  }
}
{
  c: nop
  .const m = 12
}
