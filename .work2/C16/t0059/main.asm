b: {
  a: {
    .word b.a  // b.a "a"
  }
  b: nop
  .word b  // b "b"
}
a: nop
.word b  // b "b"
