.macro m(q) {
  .word q  // q "q"
}
.macro n(p) {
  .word p  // p "p"
}
s: {
  .const y = 12
  n(2)
  .word y  // y "y"
}
.const x = 21
.if 0 {
  m(2)
  .word x  // x "x"
} else {
  n(2)
  .word x  // x "x"
}
n(2)
