{
  .word a  // a "a"
  .word c  // c "c"
}
{
  {
    .word c  // c "c"
  }
}
.word a  // a "a"
c: nop
.const a = 3
.word c  // c "c"
