.import * from "inc.asm"
.const c = 3
b: {
  c: nop
  .if 0 {
    .word super.b  // super.b "b"
  }
  .if 0 {
    .word a  // a "a"
  }
}
a: nop
.word a  // a "a"
.word c  // c "c"
.if 1 {
  .if 0 {
    .word c  // c "c"
  }
} else {
  .word c  // c "c"
  .if 0 {
    .word b  // b "b"
  }
}
