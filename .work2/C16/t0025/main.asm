b: {
  a: {
    .word super.b  // super.b "b"
  }
  b: nop
  .word a  // a "a"
}
a: nop
.word b.a  // b.a "a"
