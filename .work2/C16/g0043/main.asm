.import * from "inc.asm"
c: nop
.word c  // c "c"
.word c  // c "c"
