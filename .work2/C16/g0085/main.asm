a: {
  b: nop
  .word c  // c "c"
}
b: {
  .word b  // b "b"
  .const b = 5
  .const a = 6
}
.word b.b  // b.b "b"
.word a  // a "a"
.if 0 {
  .word b.a  // b.a "a"
  .word b.b  // b.b "b"
}
.const c = 7
