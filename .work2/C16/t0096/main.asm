b: {
  b: {
    .word a  // a "a"
  }
  a: nop
  .word a  // a "a"
}
a: nop
.word b  // b "b"
