.word c  // c "c"
c: {
  .word c  // c "c"
}
.word c  // c "c"
.word c  // c "c"
.word c  // c "c"
