b: {
  .word b.a.c  // b.a.c "c"
  a: {
    .const c = 4
    .word b.a  // b.a "a"
    .word c  // c "c"
  }
  .word c  // c "c"
}
.word c  // c "c"
.word c  // c "c"
.word c  // c "c"
.const c = 5
