a: {
  b: {
    .word super.super.b  // super.super.b "b"
  }
  a: nop
  .word super.b  // super.b "b"
}
b: nop
.word a.a  // a.a "a"
