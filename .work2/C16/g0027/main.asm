.import * from "inc.asm"
.if 0 {
  .if 0 {
    .word a  // a "a"
    .word a  // a "a"
  }
  .word a  // a "a"
} else {
  .word c  // c "c"
  .word c  // c "c"
}
.if 0 {
  .word a  // a "a"
}
a: {
  .word a  // a "a"
  .word a  // a "a"
}
.word c  // c "c"
.if 0 {
  .word c  // c "c"
  .word a  // a "a"
}
