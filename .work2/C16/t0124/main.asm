a: {
  a: {
    .word super.super.b  // super.super.b "b"
  }
  b: nop
  .word super.a  // super.a "a"
}
b: nop
.word a  // a "a"
