.word a  // a "a"
.if 1 {
  .word a  // a "a"
} else {
  .if 0 {
    .word a  // a "a"
  } else {
    .word a  // a "a"
    .word a  // a "a"
  }
  .if 0 {
    .word a  // a "a"
  }
}
a: nop
.if 0 {
  .if 0 {
    .word a  // a "a"
    .word a  // a "a"
  }
} else {
  .if 0 {
    .word a  // a "a"
    .word a  // a "a"
  }
}
