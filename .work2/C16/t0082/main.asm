b: {
  a: {
    .word a  // a "a"
  }
  b: nop
  .word super.a  // super.a "a"
}
a: nop
.word b.a  // b.a "a"
