.macro m(p, q) {
  .word p  // p "p"
}
.macro n(p) {
  .word p  // p "p"
}
b: {
  b: nop
  .word c  // c "c"
  a: {
    m(5, 2)
  }
}
m(5, 2)
c: nop
n(2)
