{
  {
    .word a  // a "a"
    b: nop
  }
}
a: {
  a: {
    .word a  // a "a"
    .word a  // a "a"
    .word super.super.a  // super.super.a "a"
  }
}
.word a  // a "a"
.word a.a  // a.a "a"
.word a  // a "a"
.if 0 {
  .if 0 {
    .word a.a  // a.a "a"
  } else {
    .word b  // b "b"
    .word a  // a "a"
  }
  .word a.a  // a.a "a"
}
