.import * from "inc.asm"
a: nop
.word a  // a "a"
.const c = 5
.word a  // a "a"
.if 0 {
  .if 0 {
    .word a  // a "a"
  }
} else {
  .word a  // a "a"
}
