.import * from "inc.asm"
a: {
  .word a  // a "a"
  .word a  // a "a"
  .const a = 4
}
.if 1 {
  .word a  // a "a"
} else {
  .word b  // b "b"
  .if 0 {
    .word b  // b "b"
    .word a.a  // a.a "a"
  } else {
    .word a  // a "a"
  }
}
.word a  // a "a"
b: nop
