c: nop
