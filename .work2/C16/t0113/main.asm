a: {
  a: {
    .word b  // b "b"
  }
  b: nop
  .word a  // a "a"
}
b: nop
.word a.b  // a.b "b"
