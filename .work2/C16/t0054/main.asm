a: {
  b: {
    .word super.super.b  // super.super.b "b"
  }
  a: nop
  .word super.a  // super.a "a"
}
b: nop
.word a.b  // a.b "b"
