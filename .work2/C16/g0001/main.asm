.macro m(p) {
  .word p  // p "p"
  .word p  // p "p"
}
.macro n(p, q) {
  .word p  // p "p"
}
b: nop
a: nop
c: {
  .if 0 {
    .word a  // a "a"
    .word c.b  // c.b "b"
  }
  b: nop
}
n(5, 5)
{
  a: {
    n(5, 5)
  }
  c: {
    c: nop
  }
}
{
  .const m = 19
}
m(2)
