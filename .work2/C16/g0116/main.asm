a: {
  c: nop
}
.word a  // a "a"
.word a  // a "a"
.if 1 {
  .if 0 {
    .word a.c  // a.c "c"
  }
} else {
  .if 0 {
    .word a.c  // a.c "c"
  }
}
