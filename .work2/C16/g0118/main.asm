c: {
  .word super.b.c  // super.b.c "c"
}
.const a = 3
b: {
  .word a  // a "a"
  c: nop
  a: {
    .word c  // c "c"
    .word b.c  // b.c "c"
  }
}
{
  .const a = 7
}
.if 1 {
  .if 0 {
    .word c  // c "c"
    .word b.a  // b.a "a"
  }
} else {
  .if 0 {
    .word a  // a "a"
    .word b.c  // b.c "c"
  }
}
.if 0 {
  .if 0 {
    .word b  // b "b"
    .word a  // a "a"
  }
} else {
  .if 0 {
    .word b.c  // b.c "c"
  }
}
