.macro m(p) {
  .word p  // p "p"
}
.macro n(q) {
  .word q  // q "q"
  .word q  // q "q"
}
c: {
  n(5)
}
.word a  // a "a"
.if 0 {
  .if 0 {
    n(2)
    .word c  // c "c"
  }
  .if 0 {
    m(5)
  }
} else {
  .if 1 {
    m(2)
    n(2)
  } else {
    m(2)
  }
  .if 0 {
    .word b.c  // b.c "c"
  }
}
a: {
  a: {
    .word super.super.c  // super.super.c "c"
    m(2)
    .const c = 19
  }
  .if 1 {
    .word a.b  // a.b "b"
  } else {
    m(2)
  }
  b: {
    c: nop
    .word c  // c "c"
  }
}
.if 0 {
  n(5)
  .if 0 {
    m(2)
  }
} else {
  .if 0 {
    .word b.c  // b.c "c"
  }
  .if 1 {
    n(2)
  } else {
    .word a.a.c  // a.a.c "c"
    n(2)
  }
}
{
  .const c = 27
  .if 1 {
    .word a  // a "a"
  } else {
    n(2)
    .word c  // c "c"
  }
}
