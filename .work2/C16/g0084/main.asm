a: {
  .const c = 3
  b: nop
}
b: nop
c: {
  a: nop
  .word c.a  // c.a "a"
}
.word a  // a "a"
{
  c: {
    .word a  // a "a"
    .word a  // a "a"
  }
}
