b: {
  b: {
    .word a  // a "a"
  }
  a: nop
  .word b  // b "b"
}
a: nop
.word b.a  // b.a "a"
