.import * from "inc.asm"
.const c = 3
b: nop
a: {
  a: nop
  .word super.a  // super.a "a"
  .word a  // a "a"
}
.if 0 {
  .word c  // c "c"
}
