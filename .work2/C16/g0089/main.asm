a: {
  b: {
    a: nop
    c: nop
    .const b = 6
  }
  a: {
    .word b.c  // b.c "c"
    c: nop
    b: nop
  }
}
.word a  // a "a"
.word a.a.c  // a.a.c "c"
c: nop
.const b = 11
.word a.a  // a.a "a"
