a: {
  b: {
    .word super.a  // super.a "a"
  }
  a: nop
  .word a  // a "a"
}
b: nop
.word a  // a "a"
