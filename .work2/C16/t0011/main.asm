b: {
  a: {
    .word a  // a "a"
  }
  b: nop
  .word b  // b "b"
}
a: nop
.word b  // b "b"
