.macro m(p, q) {
  .word p  // p "p"
}
.macro n(q) {
  .word q  // q "q"
}
.if 0 {
  n(5)
}
.word c  // c "c"
m(5, 5)
.word a  // a "a"
c: nop
.const a = 11
.word a  // a "a"
m(5, 5)
