a: nop
.word b  // b "b"
.const b = 3
