b: {
  b: {
    .word a  // a "a"
  }
  a: nop
  .word super.a  // super.a "a"
}
a: nop
.word b.a  // b.a "a"
