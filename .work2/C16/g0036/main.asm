.word b  // b "b"
a: nop
.word b  // b "b"
b: {
  .const c = 4
  .word c  // c "c"
  .word b.c  // b.c "c"
}
.word b  // b "b"
c: {
  .word b  // b "b"
  .word c  // c "c"
}
