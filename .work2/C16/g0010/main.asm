.word a  // a "a"
b: nop
a: nop
