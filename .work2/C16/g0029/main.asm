.word c  // c "c"
.word c.c  // c.c "c"
.word c.a  // c.a "a"
.word c.c  // c.c "c"
c: {
  a: nop
  .if 1 {
    .word c  // c "c"
    .word c  // c "c"
  } else {
    .word c.a  // c.a "a"
    .word c  // c "c"
  }
  .const c = 4
}
