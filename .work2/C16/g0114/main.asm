.import * from "inc.asm"
.if 0 {
  .if 0 {
    .word b  // b "b"
    .word c  // c "c"
  }
} else {
  .word c  // c "c"
}
.const c = 5
.if 0 {
  .if 1 {
    .word b  // b "b"
  } else {
    .word c  // c "c"
    .word b  // b "b"
  }
  .if 0 {
    .word c  // c "c"
  }
}
.word c  // c "c"
