.word b  // b "b"
.word b  // b "b"
b: nop
