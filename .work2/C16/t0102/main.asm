b: {
  a: {
    .word a  // a "a"
  }
  b: nop
  .word b.a  // b.a "a"
}
a: nop
.word b.a  // b.a "a"
