.import * from "inc.asm"
.if 0 {
  .word c  // c "c"
}
.word c  // c "c"
.if 0 {
  .word c  // c "c"
  .word c  // c "c"
}
.const c = 8
.if 1 {
  .if 0 {
    .word c  // c "c"
  }
  .if 0 {
    .word c  // c "c"
  }
} else {
  .if 0 {
    .word c  // c "c"
    .word c  // c "c"
  }
  .if 0 {
    .word c  // c "c"
  }
}
.word c  // c "c"
