.word c  // c "c"
.word c  // c "c"
