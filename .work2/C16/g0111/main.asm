.macro m(q) {
  .word q  // q "q"
}
.macro n(q) {
  .word q  // q "q"
  .word q  // q "q"
}
.word a  // a "a"
a: nop
{
  m(2)
}
b: {
  c: {
    n(5)
    n(2)
  }
}
