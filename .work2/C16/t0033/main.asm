a: {
  b: {
    .word a.b  // a.b "b"
  }
  a: nop
  .word a  // a "a"
}
b: nop
.word a.b  // a.b "b"
