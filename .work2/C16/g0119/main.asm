.import * from "inc.asm"
a: {
  .word a  // a "a"
  .word c  // c "c"
}
.word a  // a "a"
c: nop
.word a  // a "a"
