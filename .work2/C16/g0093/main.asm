.import * from "inc.asm"
b: {
  .if 0 {
    .word a  // a "a"
    .word b  // b "b"
  }
  .word b  // b "b"
}
.const a = 5
.word a  // a "a"
.word b  // b "b"
