.macro m(p, q) {
  .word q  // q "q"
}
b: nop
.word b  // b "b"
{
  .const b = 7
  .const a = 8
}
m(5, 2)
