b: {
  b: {
    .word b  // b "b"
  }
  a: nop
  .word a  // a "a"
}
a: nop
.word b.a  // b.a "a"
