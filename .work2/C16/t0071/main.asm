b: {
  a: {
    .word super.super.b  // super.super.b "b"
  }
  b: nop
  .word super.a  // super.a "a"
}
a: nop
.word a  // a "a"
