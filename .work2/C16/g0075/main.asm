.macro m(p, q) {
  .word q  // q "q"
  .word p  // p "p"
}
.macro n(p, q) {
  .word q  // q "q"
  .word p  // p "p"
}
a: nop
.word a  // a "a"
n(5, 2)
.word a  // a "a"
b: {
  {
    a: nop
    c: nop
  }
}
m(2, 2)
