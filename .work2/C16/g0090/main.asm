.import * from "inc.asm"
a: nop
.if 0 {
  .word b.a.b  // b.a.b "b"
}
b: {
  a: {
    b: nop
  }
}
.if 1 {
  .word b  // b "b"
} else {
  .if 0 {
    .word b.a  // b.a "a"
    .word a  // a "a"
  }
}
.if 1 {
  .if 0 {
    .word a  // a "a"
  }
  .if 0 {
    .word b.a  // b.a "a"
  }
} else {
  .if 0 {
    .word c  // c "c"
    .word a  // a "a"
  }
  .if 0 {
    .word b  // b "b"
    .word c  // c "c"
  } else {
    .word a.b  // a.b "b"
    .word b  // b "b"
  }
}
c: nop
