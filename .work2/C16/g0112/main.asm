.import * from "inc.asm"
.if 1 {
  .word b  // b "b"
  .word a  // a "a"
} else {
  .word b  // b "b"
  .word a  // a "a"
}
b: nop
.if 0 {
  .if 0 {
    .word b  // b "b"
  }
  .if 0 {
    .word b  // b "b"
  }
} else {
  .if 0 {
    .word b  // b "b"
    .word b  // b "b"
  }
}
.word a  // a "a"
