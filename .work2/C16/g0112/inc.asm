a: {
  a: nop
  .word super.a  // super.a "a"
}
.word a  // a "a"
