b: {
  a: {
    .word b  // b "b"
  }
  b: nop
  .word a  // a "a"
}
a: nop
.word b  // b "b"
