a: {
  b: {
    .word b  // b "b"
  }
  a: nop
  .word b  // b "b"
}
b: nop
.word a.b  // a.b "b"
