c: nop
{
  .word super.a.c  // super.a.c "c"
  c: {
    .word super.c  // super.c "c"
  }
}
a: {
  .if 1 {
    .word b  // b "b"
  } else {
    .word super.a  // super.a "a"
  }
  c: nop
  .const b = 6
}
