.import * from "inc.asm"
.word c  // c "c"
.if 1 {
  .word b  // b "b"
  .word c  // c "c"
} else {
  .if 0 {
    .word c  // c "c"
    .word c  // c "c"
  }
}
.word b  // b "b"
