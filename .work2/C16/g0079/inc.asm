.const b = 2
.const c = 3
