.macro m(q) {
  .word q  // q "q"
  .word q  // q "q"
}
.if 0 {
  .word c  // c "c"
}
.if 0 {
  .if 0 {
    .word c  // c "c"
    m(5)
  }
}
c: nop
.word c  // c "c"
.word c  // c "c"
m(2)
