a: {
  b: {
    .word a  // a "a"
  }
  a: nop
  .word a.b  // a.b "b"
}
b: nop
.word a  // a "a"
