b: {
  a: {
    .word super.a  // super.a "a"
  }
  b: nop
  .word b  // b "b"
}
a: nop
.word b.a  // b.a "a"
