.word a  // a "a"
a: {
  a: {
    c: nop
    .word b  // b "b"
    .word a  // a "a"
  }
}
{
  .word super.a.a.c  // super.a.a.c "c"
  .word a  // a "a"
}
.word a.a.c  // a.a.c "c"
.const b = 5
.if 0 {
  .word b  // b "b"
  .if 0 {
    .word a.a  // a.a "a"
    .word a.a  // a.a "a"
  }
}
