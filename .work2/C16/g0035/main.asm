.macro m(p, q) {
  .word p  // p "p"
}
.word b  // b "b"
b: {
  c: nop
  {
    m(5, 5)
  }
}
a: nop
.word b  // b "b"
m(2, 5)
.word b.c  // b.c "c"
