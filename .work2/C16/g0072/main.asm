.const a = 2
c: {
  c: {
    c: nop
  }
  b: {
    b: nop
    c: nop
  }
  .word c  // c "c"
}
.word b  // b "b"
b: {
  .if 0 {
    .word b  // b "b"
  }
  {
    b: nop
    .word b  // b "b"
  }
}
