a: {
  {
    .word c  // c "c"
  }
}
.if 1 {
  .if 0 {
    .word b  // b "b"
  }
  .word b  // b "b"
} else {
  .if 0 {
    .word b  // b "b"
  }
}
c: nop
.word c  // c "c"
b: {
  a: {
    c: nop
  }
  .word a  // a "a"
}
.if 1 {
  .word b.a  // b.a "a"
  .if 1 {
    .word b  // b "b"
  } else {
    .word a  // a "a"
  }
} else {
  .if 0 {
    .word a  // a "a"
  }
}
