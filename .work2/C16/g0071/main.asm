.import * from "inc.asm"
.word a  // a "a"
c: nop
.if 0 {
  .word a  // a "a"
}
.if 0 {
  .if 0 {
    .word a  // a "a"
  }
}
.if 0 {
  .if 0 {
    .word a  // a "a"
    .word c  // c "c"
  } else {
    .word a  // a "a"
    .word c  // c "c"
  }
  .word c  // c "c"
} else {
  .if 0 {
    .word a  // a "a"
    .word a  // a "a"
  }
  .word c  // c "c"
}
