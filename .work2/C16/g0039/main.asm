.macro m(p) {
  .word p  // p "p"
  .word p  // p "p"
}
.const a = 6
.word a  // a "a"
.word a  // a "a"
c: {
  .const c = 8
  .word c  // c "c"
}
.word a  // a "a"
m(5)
