a: {
  b: {
    .word super.b  // super.b "b"
  }
  a: nop
  .word super.a  // super.a "a"
}
b: nop
.word a  // a "a"
