.macro m(p) {
  .word p  // p "p"
  .word p  // p "p"
}
.macro n(q) {
  .word q  // q "q"
  .word q  // q "q"
}
c: {
  b: {
    .word b  // b "b"
    a: nop
  }
  .word c.b  // c.b "b"
  .const a = 13
}
.word c  // c "c"
.if 0 {
  m(5)
} else {
  .word c.a  // c.a "a"
}
.word c.a  // c.a "a"
.if 1 {
  .word c  // c "c"
} else {
  .if 0 {
    .word c.a  // c.a "a"
  }
  .if 0 {
    .word a  // a "a"
  }
}
n(2)
