b: {
  a: {
    .word b  // b "b"
  }
  b: nop
  .word b  // b "b"
}
a: nop
.word b  // b "b"
