b: {
  b: {
    .word super.super.b  // super.super.b "b"
  }
  a: nop
  .word a  // a "a"
}
a: nop
.word b.a  // b.a "a"
