.import * from "inc.asm"
.word a  // a "a"
.word a  // a "a"
.const a = 3
.if 0 {
  .if 0 {
    .word a  // a "a"
    .word a  // a "a"
  }
  .if 1 {
    .word a  // a "a"
  } else {
    .word a  // a "a"
    .word a  // a "a"
  }
}
.word a  // a "a"
