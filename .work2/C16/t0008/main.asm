a: {
  a: {
    .word b  // b "b"
  }
  b: nop
  .word super.b  // super.b "b"
}
b: nop
.word b  // b "b"
