b: {
  b: {
    .word a  // a "a"
  }
  a: nop
  .word b.a  // b.a "a"
}
a: nop
.word a  // a "a"
