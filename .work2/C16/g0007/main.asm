.import * from "inc.asm"
.word c  // c "c"
.word c  // c "c"
b: nop
.word c  // c "c"
