.word b  // b "b"
.const c = 3
