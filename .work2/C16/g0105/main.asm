.word c  // c "c"
{
  .word super.c  // super.c "c"
  .word c  // c "c"
}
c: {
  .if 0 {
    .word c  // c "c"
  }
}
.if 0 {
  .if 0 {
    .word c  // c "c"
    .word c  // c "c"
  }
  .word c  // c "c"
} else {
  .word c  // c "c"
}
.word c  // c "c"
