.macro m(p) {
  .word p  // p "p"
  .word p  // p "p"
}
.const b = 6
.word a  // a "a"
c: {
  .const a = 8
}
a: {
  a: {
    b: nop
    a: nop
    m(2)
  }
  b: nop
  .if 0 {
    m(5)
    m(5)
  } else {
    m(2)
    .word c  // c "c"
  }
}
.word a  // a "a"
{
  .word a  // a "a"
}
