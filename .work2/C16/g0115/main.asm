.macro m(p, q) {
  .word p  // p "p"
}
.macro n(p, q) {
  .word p  // p "p"
}
c: nop
.word c  // c "c"
.if 0 {
  n(2, 2)
}
{
  .word c  // c "c"
}
n(2, 2)
.word c  // c "c"
.if 1 {
  m(2, 5)
  .if 0 {
    n(2, 5)
    n(5, 5)
  }
} else {
  .if 0 {
    m(2, 2)
  }
}
m(2, 2)
