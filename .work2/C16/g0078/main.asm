.macro m(q) {
  .word q  // q "q"
}
m(2)
.word a  // a "a"
.if 0 {
  .if 0 {
    m(2)
  }
}
a: nop
