b: {
  a: {
    .word b.a  // b.a "a"
  }
  b: nop
  .word a  // a "a"
}
a: nop
.word b  // b "b"
