a: {
  a: {
    .word super.b  // super.b "b"
  }
  b: nop
  .word a.b  // a.b "b"
}
b: nop
.word b  // b "b"
