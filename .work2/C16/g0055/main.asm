.macro m(p) {
  .word p  // p "p"
}
.macro n(p) {
  .word p  // p "p"
  .word p  // p "p"
}
c: nop
.word c  // c "c"
.if 0 {
  m(5)
}
b: {
  .word b  // b "b"
  a: {
    .word b  // b "b"
    c: nop
  }
}
.word c  // c "c"
.if 0 {
  .word a  // a "a"
}
n(5)
