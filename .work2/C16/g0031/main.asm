.import * from "inc.asm"
.if 0 {
  .if 0 {
    .word b.a  // b.a "a"
  }
  .word b.b  // b.b "b"
}
.word a  // a "a"
.word b  // b "b"
a: nop
b: {
  a: {
    .word b  // b "b"
    .word super.super.c  // super.super.c "c"
    .word a  // a "a"
  }
  b: {
    c: nop
  }
}
c: {
  c: {
    b: nop
    .const c = 19
    .word c  // c "c"
  }
  .if 0 {
    .word b  // b "b"
  } else {
    .word b.b  // b.b "b"
    .word b  // b "b"
  }
  .word b  // b "b"
}
