.import * from "inc.asm"
.if 0 {
  .word c  // c "c"
} else {
  .if 1 {
    .word c  // c "c"
    .word b  // b "b"
  } else {
    .word c  // c "c"
    .word b  // b "b"
  }
}
.word b  // b "b"
a: {
  .word c  // c "c"
}
c: {
  .word c  // c "c"
  .if 0 {
    .word b  // b "b"
  } else {
    .word a  // a "a"
    .word c  // c "c"
  }
  .word super.c  // super.c "c"
}
b: {
  .word c  // c "c"
}
