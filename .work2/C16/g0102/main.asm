.import * from "inc.asm"
.word a  // a "a"
a: nop
.word a  // a "a"
.if 0 {
  .word a  // a "a"
  .if 1 {
    .word a  // a "a"
  } else {
    .word a  // a "a"
  }
}
