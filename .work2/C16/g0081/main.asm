.const c = 2
.const b = 3
.word b  // b "b"
{
  .word super.c  // super.c "c"
  a: {
    b: nop
  }
}
.const a = 6
