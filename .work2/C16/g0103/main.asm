c: {
  {
    .word c  // c "c"
  }
  .word super.c  // super.c "c"
}
.word c  // c "c"
a: {
  .word a  // a "a"
}
