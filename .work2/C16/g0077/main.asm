.macro m(p, q) {
  .word p  // p "p"
  .word q  // q "q"
}
.macro n(q) {
  .word q  // q "q"
  .word q  // q "q"
}
a: {
  {
    .word b  // b "b"
    b: nop
  }
  .const a = 13
}
.word b  // b "b"
b: {
  .if 0 {
    n(2)
    n(2)
  }
  n(2)
}
c: {
  .word a  // a "a"
}
m(2, 2)
