.macro m(q) {
  .word q  // q "q"
}
.macro n(q) {
  .word q  // q "q"
}
.if 0 {
  m(5)
}
c: {
  .word a  // a "a"
  .const c = 9
}
.word a  // a "a"
.const a = 10
n(5)
