a: {
  b: {
    .word a.b  // a.b "b"
  }
  a: nop
  .word a.b  // a.b "b"
}
b: nop
.word a  // a "a"
