.import * from "inc.asm"
b: {
  .word c  // c "c"
  c: nop
  .if 0 {
    .word a  // a "a"
  }
}
.const a = 5
c: {
  b: nop
}
.if 0 {
  .if 0 {
    .word c.b  // c.b "b"
  }
}
.word b  // b "b"
