a: {
  .word super.a  // super.a "a"
  .word a  // a "a"
  .word a  // a "a"
}
.word a  // a "a"
