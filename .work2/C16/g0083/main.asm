.import * from "inc.asm"
.word a  // a "a"
.if 0 {
  .if 0 {
    .word a  // a "a"
    .word a  // a "a"
  }
} else {
  .if 0 {
    .word a  // a "a"
  }
}
.word a  // a "a"
.word a  // a "a"
.if 0 {
  .if 0 {
    .word a  // a "a"
    .word a  // a "a"
  }
  .word a  // a "a"
}
.word a  // a "a"
