.import * from "inc.asm"
.const c = 7
b: {
  .word a  // a "a"
}
.if 0 {
  .if 0 {
    .word a  // a "a"
  }
  .word b  // b "b"
}
.word b  // b "b"
.const a = 9
.word c  // c "c"
