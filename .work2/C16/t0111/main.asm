a: {
  a: {
    .word super.super.b  // super.super.b "b"
  }
  b: nop
  .word a.b  // a.b "b"
}
b: nop
.word b  // b "b"
