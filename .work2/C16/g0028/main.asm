.import * from "inc.asm"
.if 0 {
  .if 0 {
    .word a  // a "a"
    .word a  // a "a"
  }
}
c: {
  .if 1 {
    .word b  // b "b"
    .word super.c  // super.c "c"
  } else {
    .word b.a  // b.a "a"
  }
  .word b  // b "b"
  .word super.b  // super.b "b"
}
a: nop
.if 1 {
  .if 0 {
    .word a  // a "a"
    .word b  // b "b"
  }
  .if 0 {
    .word a  // a "a"
    .word c  // c "c"
  }
} else {
  .if 0 {
    .word a  // a "a"
    .word b  // b "b"
  }
  .word c  // c "c"
}
b: {
  .word b.a  // b.a "a"
  a: nop
  .word b  // b "b"
}
