.macro m(q) {
  .word q  // q "q"
}
.macro n(p, q) {
  .word q  // q "q"
  .word q  // q "q"
}
.word b  // b "b"
c: nop
.word a  // a "a"
b: {
  .const m = 12
  .word c  // c "c"
  m(5)
}
.if 0 {
  m(2)
}
.word b  // b "b"
.const a = 14
n(2, 2)
