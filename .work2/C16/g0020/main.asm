.if 0 {
  .word a  // a "a"
} else {
  .word a  // a "a"
}
{
  a: {
    .const b = 3
    a: nop
  }
  .word b  // b "b"
}
a: nop
.word a  // a "a"
b: {
  c: nop
}
