b: {
  a: {
    .word super.b  // super.b "b"
  }
  b: nop
  .word b.a  // b.a "a"
}
a: nop
.word b  // b "b"
