.word a  // a "a"
c: {
  .if 0 {
    .word a  // a "a"
    .word a  // a "a"
  }
}
a: {
  .if 0 {
    .word super.a  // super.a "a"
    .word b  // b "b"
  }
  {
    a: nop
  }
  .word a  // a "a"
}
.word a  // a "a"
.word a  // a "a"
b: {
  .word b  // b "b"
}
