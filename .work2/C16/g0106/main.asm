.import * from "inc.asm"
b: nop
c: {
  a: {
    c: nop
    .word a.c  // a.c "c"
  }
}
.word c  // c "c"
a: {
  c: {
    .word b  // b "b"
  }
}
.word c.a  // c.a "a"
