a: {
  b: {
    .word super.super.b  // super.super.b "b"
  }
  a: nop
  .word a  // a "a"
}
b: nop
.word a  // a "a"
