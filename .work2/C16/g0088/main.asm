.macro m(q) {
  .word q  // q "q"
  .word q  // q "q"
}
.if 0 {
  .word b  // b "b"
  .if 0 {
    m(5)
    m(2)
  }
} else {
  .if 1 {
    m(2)
    .word b  // b "b"
  } else {
    m(2)
  }
}
.if 0 {
  .word b  // b "b"
}
.const b = 10
