.import * from "inc.asm"
.const b = 4
a: nop
c: {
  .word b  // b "b"
  .word a  // a "a"
  .const b = 7
}
.if 0 {
  .if 1 {
    .word b  // b "b"
    .word c  // c "c"
  } else {
    .word c.b  // c.b "b"
    .word b  // b "b"
  }
}
