.word c  // c "c"
