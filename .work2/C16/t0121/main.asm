a: {
  b: {
    .word a.b  // a.b "b"
  }
  a: nop
  .word b  // b "b"
}
b: nop
.word a  // a "a"
