b: {
  b: {
    .word a  // a "a"
  }
  a: nop
  .word super.b  // super.b "b"
}
a: nop
.word b.a  // b.a "a"
