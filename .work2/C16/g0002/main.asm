.macro m(p) {
  .word p  // p "p"
  .word p  // p "p"
}
.macro n(p, q) {
  .word p  // p "p"
}
.const a = 10
.word a  // a "a"
.word a  // a "a"
.if 0 {
  m(5)
}
b: {
  .word a  // a "a"
}
.if 0 {
  .word a  // a "a"
  .if 0 {
    .word a  // a "a"
    n(5, 5)
  }
} else {
  .if 1 {
    .word a  // a "a"
  } else {
    n(2, 5)
    .word b  // b "b"
  }
}
n(5, 5)
