b: {
  b: {
    .word super.b  // super.b "b"
  }
  a: nop
  .word b  // b "b"
}
a: nop
.word b.a  // b.a "a"
