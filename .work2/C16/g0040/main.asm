.import * from "inc.asm"
.if 0 {
  .if 0 {
    .word a  // a "a"
  }
}
a: nop
.word c  // c "c"
.word a  // a "a"
