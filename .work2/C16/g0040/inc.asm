.word c  // c "c"
c: nop
