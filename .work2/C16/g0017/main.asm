b: {
  .word b  // b "b"
}
.if 0 {
  .if 0 {
    .word a  // a "a"
    .word b  // b "b"
  }
  .word a  // a "a"
} else {
  .word b  // b "b"
  .if 0 {
    .word b  // b "b"
    .word a  // a "a"
  }
}
a: nop
