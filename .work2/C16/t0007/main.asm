a: {
  b: {
    .word a.b  // a.b "b"
  }
  a: nop
  .word super.a  // super.a "a"
}
b: nop
.word a.a  // a.a "a"
