b: {
  a: {
    .word super.b  // super.b "b"
  }
  b: nop
  .word super.a  // super.a "a"
}
a: nop
.word b.a  // b.a "a"
