.import * from "inc.asm"
a: {
  .word super.c  // super.c "c"
  c: {
    .word c  // c "c"
    c: nop
    a: nop
  }
}
c: {
  .word a  // a "a"
}
.if 0 {
  .if 0 {
    .word c.c  // c.c "c"
  }
}
.word a.c  // a.c "c"
