.macro m(q) {
  .word q  // q "q"
}
.if 0 {
  .if 0 {
    m(2)
  }
} else {
  .word c  // c "c"
}
.const c = 6
m(2)
