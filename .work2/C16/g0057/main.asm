.import * from "inc.asm"
a: {
  b: {
    .word b  // b "b"
  }
}
b: nop
c: {
  .const b = 7
  .word c  // c "c"
}
.if 0 {
  .if 0 {
    .word b  // b "b"
  }
  .if 0 {
    .word b  // b "b"
    .word c.b  // c.b "b"
  }
}
.word c  // c "c"
