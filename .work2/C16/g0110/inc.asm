c: nop
.word c  // c "c"
