.import * from "inc.asm"
.if 1 {
  .if 0 {
    .word c  // c "c"
    .word b  // b "b"
  }
} else {
  .if 0 {
    .word c  // c "c"
    .word b  // b "b"
  }
}
.const b = 4
.word b  // b "b"
.word b  // b "b"
