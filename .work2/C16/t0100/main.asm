a: {
  b: {
    .word super.a  // super.a "a"
  }
  a: nop
  .word a.b  // a.b "b"
}
b: nop
.word a.b  // a.b "b"
