a: nop
.if 0 {
  .if 0 {
    .word b  // b "b"
  }
} else {
  .if 0 {
    .word b  // b "b"
  }
}
b: nop
