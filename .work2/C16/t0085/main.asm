b: {
  b: {
    .word super.super.b  // super.super.b "b"
  }
  a: nop
  .word super.a  // super.a "a"
}
a: nop
.word a  // a "a"
