.import * from "inc.asm"
a: nop
b: {
  .word c  // c "c"
  .word a  // a "a"
}
.const c = 6
