a: {
  b: {
    .word a.a  // a.a "a"
  }
  a: nop
  .word super.a  // super.a "a"
}
b: nop
.word a  // a "a"
