.macro m(q) {
  .word q  // q "q"
  .word q  // q "q"
}
.word c  // c "c"
m(2)
c: nop
