.macro m(p, q) {
  .word p  // p "p"
}
.macro n(q) {
  .word q  // q "q"
}
.if 1 {
  .word c  // c "c"
} else {
  .if 0 {
    n(2)
  }
  .if 0 {
    .word a  // a "a"
  }
}
a: {
  .word c  // c "c"
}
.word a  // a "a"
c: nop
.if 0 {
  .word a  // a "a"
} else {
  .if 0 {
    .word a  // a "a"
    n(2)
  }
}
m(2, 2)
