.macro m(q) {
  .word q  // q "q"
}
m(2)
.if 0 {
  .if 0 {
    m(5)
  }
}
b: {
  .const c = 8
  .word super.b  // super.b "b"
}
