.macro m(p, q) {
  .word q  // q "q"
  .word p  // p "p"
}
.macro n(q) {
  .word q  // q "q"
  .word q  // q "q"
}
.const a = 11
n(5)
.if 0 {
  n(2)
}
n(5)
m(2, 2)
