.macro m(p, q) {
  .word p  // p "p"
  .word p  // p "p"
}
b: {
  .word a  // a "a"
}
a: {
  m(2, 5)
}
.word a  // a "a"
