.const a = 2
