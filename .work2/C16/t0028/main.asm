a: {
  b: {
    .word super.b  // super.b "b"
  }
  a: nop
  .word b  // b "b"
}
b: nop
.word a.a  // a.a "a"
