.word b  // b "b"
{
  {
    .word super.super.b  // super.super.b "b"
    a: nop
  }
}
.const b = 3
