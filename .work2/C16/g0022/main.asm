.const c = 2
.word b  // b "b"
.word c  // c "c"
.if 1 {
  .if 0 {
    .word c  // c "c"
    .word c  // c "c"
  } else {
    .word b  // b "b"
    .word c  // c "c"
  }
  .word b  // b "b"
} else {
  .if 0 {
    .word c  // c "c"
  }
}
.const b = 3
.word b  // b "b"
