.import * from "inc.asm"
.const b = 4
.word b  // b "b"
a: {
  .word super.b  // super.b "b"
}
