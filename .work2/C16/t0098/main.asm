a: {
  a: {
    .word a.a  // a.a "a"
  }
  b: nop
  .word a.b  // a.b "b"
}
b: nop
.word b  // b "b"
