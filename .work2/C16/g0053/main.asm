.const c = 2
.word b  // b "b"
b: {
  .const c = 4
  b: {
    .word super.super.c  // super.super.c "c"
    .word c  // c "c"
  }
  a: nop
}
.word a  // a "a"
a: {
  a: {
    .word super.super.b.b  // super.super.b.b "b"
  }
  .word b  // b "b"
  .word b.b  // b.b "b"
}
{
  .const a = 9
}
