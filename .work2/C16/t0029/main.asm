a: {
  b: {
    .word super.a  // super.a "a"
  }
  a: nop
  .word super.b  // super.b "b"
}
b: nop
.word a.b  // a.b "b"
