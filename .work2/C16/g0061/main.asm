.macro m(p) {
  .word p  // p "p"
}
.macro n(p, q) {
  .word q  // q "q"
}
.if 0 {
  m(2)
}
{
  a: {
    m(2)
    m(5)
    m(5)
  }
}
.const a = 13
.const b = 14
n(2, 2)
