.macro m(p) {
  .word p  // p "p"
}
.word a  // a "a"
b: {
  .word super.a  // super.a "a"
  .if 1 {
    m(2)
  } else {
    .word a  // a "a"
    .word super.c.m  // super.c.m "m"
  }
  {
    m(5)
    m(2)
  }
}
c: {
  {
    m(5)
    .word super.super.a  // super.super.a "a"
  }
  .const m = 11
}
a: nop
.word c.m  // c.m "m"
{
  {
    m(2)
    a: nop
  }
  m(2)
}
