.macro m(p) {
  .word p  // p "p"
  .word p  // p "p"
}
m(2)
.const b = 7
c: nop
a: nop
