.macro m(p) {
  .word p  // p "p"
}
m(5)
a: nop
b: {
  {
    .word a  // a "a"
    m(2)
  }
  .word super.b  // super.b "b"
}
.word a  // a "a"
m(5)
