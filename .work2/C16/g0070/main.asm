.macro m(p) {
  .word p  // p "p"
  .word p  // p "p"
}
.word a  // a "a"
a: {
  b: {
    m(2)
    b: nop
  }
  .word super.a  // super.a "a"
}
.const b = 10
