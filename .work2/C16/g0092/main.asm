.macro m(p) {
  .word p  // p "p"
}
a: {
  {
    .word b  // b "b"
  }
  {
    m(2)
    m(2)
  }
}
{
  .if 1 {
    .word b  // b "b"
    m(5)
  } else {
    m(2)
    .word super.a  // super.a "a"
  }
}
b: {
  .word b  // b "b"
  b: {
    b: nop
  }
}
c: nop
m(2)
