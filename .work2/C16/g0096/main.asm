.import * from "inc.asm"
a: {
  c: {
    a: nop
    b: nop
  }
  .word c  // c "c"
}
.if 0 {
  .word c  // c "c"
  .word c  // c "c"
}
.const b = 12
.if 0 {
  .if 0 {
    .word a.c.b  // a.c.b "b"
    .word a.c.b  // a.c.b "b"
  }
}
c: {
  .if 0 {
    .word a.c  // a.c "c"
  } else {
    .word a  // a "a"
  }
}
