.macro m(p) {
  .word p  // p "p"
}
.macro n(p) {
  .word p  // p "p"
}
.const c = 8
.word b  // b "b"
.if 1 {
  .if 0 {
    n(2)
  }
  .word b  // b "b"
} else {
  .if 0 {
    .word m  // m "m"
  }
  .word a  // a "a"
}
.const b = 10
a: nop
{
  {
    .const m = 12
  }
}
.if 0 {
  n(2)
}
m(2)
