b: {
  .word a  // a "a"
}
