.import * from "inc.asm"
.const a = 5
.if 0 {
  .if 0 {
    .word b  // b "b"
  }
} else {
  .if 0 {
    .word b  // b "b"
    .word b  // b "b"
  }
  .word b  // b "b"
}
.word b  // b "b"
.word a  // a "a"
.if 0 {
  .if 0 {
    .word b  // b "b"
    .word b  // b "b"
  }
}
.word a  // a "a"
