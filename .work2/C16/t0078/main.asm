b: {
  a: {
    .word super.super.b  // super.super.b "b"
  }
  b: nop
  .word b  // b "b"
}
a: nop
.word a  // a "a"
