.import * from "inc.asm"
.const b = 4
c: nop
a: {
  .if 1 {
    .word super.c  // super.c "c"
  } else {
    .word a  // a "a"
  }
}
