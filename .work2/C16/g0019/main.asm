.import * from "inc.asm"
c: {
  .if 0 {
    .word a  // a "a"
    .word c.a.b  // c.a.b "b"
  }
  a: {
    b: nop
    c: nop
    a: nop
  }
}
b: {
  .word c  // c "c"
}
a: {
  .word a  // a "a"
  b: {
    .word super.super.b  // super.super.b "b"
    .word a  // a "a"
  }
  .if 0 {
    .word c  // c "c"
    .word c  // c "c"
  }
}
.word a  // a "a"
.if 0 {
  .word a  // a "a"
  .word a  // a "a"
}
.if 0 {
  .if 1 {
    .word b  // b "b"
    .word c.a  // c.a "a"
  } else {
    .word c  // c "c"
    .word a  // a "a"
  }
  .if 0 {
    .word b  // b "b"
  }
}
