.word a  // a "a"
.const c = 2
.const b = 3
.word a.c  // a.c "c"
a: {
  .const c = 5
}
