.macro m(p) {
  .word p  // p "p"
  .word p  // p "p"
}
.macro n(q) {
  .word q  // q "q"
}
.if 1 {
  .if 0 {
    m(2)
  }
  .word a  // a "a"
} else {
  .if 0 {
    m(5)
  } else {
    .word b  // b "b"
  }
  .word a.c  // a.c "c"
}
.word a.c  // a.c "c"
.if 0 {
  m(5)
}
m(2)
a: {
  c: nop
  m(2)
  b: nop
}
{
  m(2)
}
b: nop
n(5)
