.macro m(q) {
  .word q  // q "q"
}
.macro n(p) {
  .word p  // p "p"
  .word p  // p "p"
}
.word b  // b "b"
b: {
  .const c = 10
  .word super.b  // super.b "b"
  m(2)
}
.const a = 12
n(2)
