.macro m(q) {
  .word q  // q "q"
}
.macro n(p) {
  .word p  // p "p"
}
a: {
  .word super.a  // super.a "a"
  .if 1 {
    .word a.a  // a.a "a"
  } else {
    m(2)
  }
  a: {
    m(2)
  }
}
.const c = 12
.if 1 {
  .if 0 {
    .word b  // b "b"
    m(2)
  }
} else {
  .if 0 {
    .word b  // b "b"
  }
}
{
  n(5)
  c: {
    n(2)
    m(2)
  }
}
b: {
  .word a  // a "a"
}
m(2)
