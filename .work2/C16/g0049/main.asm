{
  b: nop
  .word super.c.b  // super.c.b "b"
}
.word c.b  // c.b "b"
c: {
  b: {
    .word super.super.a  // super.super.a "a"
    .word c  // c "c"
    .word super.b  // super.b "b"
  }
}
.const a = 5
b: {
  .word c  // c "c"
  {
    c: nop
    .word c  // c "c"
  }
}
{
  .word c  // c "c"
}
