.const c = 2
.word c  // c "c"
.if 0 {
  .word a  // a "a"
} else {
  .word b  // b "b"
}
.word a  // a "a"
b: nop
a: nop
