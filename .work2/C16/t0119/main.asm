a: {
  a: {
    .word super.b  // super.b "b"
  }
  b: nop
  .word super.a  // super.a "a"
}
b: nop
.word b  // b "b"
