.import * from "inc.asm"
.const c = 3
b: nop
a: {
  b: nop
}
.if 0 {
  .if 0 {
    .word c  // c "c"
  }
}
.word b  // b "b"
