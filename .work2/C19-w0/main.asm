.test "t" {
    nop
    brk
}
