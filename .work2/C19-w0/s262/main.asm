.test "t" {
    ldy #3
    o: ldx #250
    i: dex
    bne i
    jsr s
    dey
    bne o
    brk
    s: nop
    rts
}
