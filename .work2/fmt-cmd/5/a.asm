.import * from "b.asm"
  .BYTE    142,137	/* c1 */
  l1:
cmp  /* c2 */ (	$a8 ,x    )
.trace(/* c3 */l1  ,  /* c4 */l1	) 