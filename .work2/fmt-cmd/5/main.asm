.import * from "a.asm"
 
  .test    "t150"  {  
CMP    /* c1 */    71  ,Y    /* c2 */
	}
/* c5 */
.loop	/* c3 */	3	{// c4
.byte %11000110 }


.if    %101000
  { }    else  
 {	/* c8 *//* c9 */EOR  /* c7 */  $770d	  }// c12
/* c13 */
eor /* c11 */ 110, Y/* c14 */
