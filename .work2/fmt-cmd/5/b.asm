
l1:/* c1 */// c2
  {	}

l2: {
    cmp  ($47/* c3 */,X/* c4 */)
 .trace	/* c5 */
    } 
    .text	petscreen  "t16" /* c6 */    
 lda #(
