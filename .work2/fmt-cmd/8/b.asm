.macro m1/* c1 */ (p0)
{
  // c2
  .byte 120, 55, 38// c3
}