.import * from "a.asm"

a_rather_long_label_name_1:

SBC a_rather_long_label_name_1 + a_rather_long_label_name_1// c2
CMP /* c1 */ $d981 - $71e5