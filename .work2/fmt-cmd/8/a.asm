.import * from "b.asm"
/* c7 */
.if 167
{
  /* c1 */
  .align 4// c2

  .const c1 = 195
}
else
{
  .word %1110011
  /* c5 */
  CMP ($9b), /* c4 */ Y
  ADC /* c6 */ ($f5, X)
}

CLC   /* c8 */

.const c2 = 102
/* c9 */
l1: