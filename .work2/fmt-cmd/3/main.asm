.MACRO m1/* c1 */    (  )    	{

.byte /* c2 */	 42



.dword  %10110011,/* c3 */242	/* c4 */  , /* c5 */%10000111	
	a_rather_long_label_name_1: 
 }  /* c6 */
  ldy	#$9f3d  
/* c8 */.byte	  /* c7 */%11110 ,    193,<a_rather_long_label_name_1 /* c9 */
 lda #(
