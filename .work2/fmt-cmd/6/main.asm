
lda /* c1 */ #233

.assert $254f == $6d7a "m12"  /* c3 */

.trace (114, 66/* c2 */ )