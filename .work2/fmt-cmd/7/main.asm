.import * from "a.asm"
  .word 182


 lda #(
