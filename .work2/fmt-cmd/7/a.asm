
{/* c1 */
and # 108
.text  /* c2 */ petscreen    "t51"

/* c3 */sta	($4f  ,X)  	}
 .byte  224 ,125    