/* c1 */Adc    ($72  ),Y
 Dey

  Sbc  -34