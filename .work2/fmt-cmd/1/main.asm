.import * from "a.asm"
  // c1

	{LDA    (	$20 )	,y    
    }
 .MACRO    m1 (p0  ) { /* c3 */Ora	%1111 -/* c2 */$5ffa
/* c4 */	}
a_rather_long_label_name_1:
.macro  m2 (  p0/* c5 */    )	{
.text  "t19"
 }  
 lda #(
