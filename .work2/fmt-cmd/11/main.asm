.import * from "a.asm"
.test    "t688"/* c1 */
    { }/* c2 */

 .byte		$33f4  ,86/* c3 */
 l1: 
 lda #(
