.import * from "b.asm"
 ora #24// c1
.TRACE/* c2 *//* c3 */
