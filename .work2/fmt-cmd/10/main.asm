            .import * from "a.asm"
            {
                  /* c1 */
      l1:         }

            ldy #<l1  /* c3 */

            .assert /* c2 */ l1 == %10111 "m46"
a_rather_long_label_name_2: