            eor (%1000111 + 43)

            sbc #128

            pha