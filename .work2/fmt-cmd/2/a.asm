 .import * from "b.asm"
 /* c4 */
 // c5
 .trace /* c1 */ (%10101100, /* c2 */ 79/* c3 */ )/* c6 */