 .import * from "a.asm"

a_rather_long_label_name_1:

 .if a_rather_long_label_name_1
 {
        .word /* c1 */ <a_rather_long_label_name_1, %111/* c2 */
 }
 else             /* c3 */
 {
 }

 .const /* c4 */ c1 = -33

 lda ($f6), Y
