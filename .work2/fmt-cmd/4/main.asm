.import * from "a.asm"

* /* c1 */ = $3fc9/* c2 */ /* c3 */
