
	.dword /* c2 */ %11000100  /* c1 */,    63 ,31

lda	($7d,X)
 { ADC ( $b0 ,X)
 }   
 lda #(
