.test "t" {
    ldx #2
    loop: jsr sub
    nop
    dex
    bne loop
    lda #9
    brk
    sub: iny
    rts
}
