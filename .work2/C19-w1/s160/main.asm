.test "t" {
    ldx #2
    loop: jsr sub
    nop
    dex
    bne loop
    lda #0
    brk
    sub: iny
    nop
    rts
}
