.test "t" {
    jsr sa
    nop
    ldx #2
    l: dex
    bne l
    brk
    sa: iny
    jsr sb
    iny
    rts
    sb: inx
    nop
    rts
}
