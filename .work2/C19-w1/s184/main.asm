.test "t" {
    ldx #0
    .loop 3 {
        inx
        nop
    }
    iny
    brk
}
