.test "t" {
    ldx #0
    .loop 2 {
        inx
        nop
    }
    iny
    brk
}
