.test "t" {
    ldx #3
    loop: jsr sub
    dex
    bne loop
    lda #9
    brk
    sub: iny
    rts
}
