.test "t" {
    lda #5
    ldx #2
    loop: jsr s
    dex
    bne loop
    brk
    s: pha
    iny
    pla
    rts
}
