.test "t" {
    ldx #2
    loop: jsr sub
    nop
    dex
    bne loop
    lda #7
    brk
    sub: iny
    nop
    rts
}
