.macro bump() {
    inx
}
.test "t" {
    ldx #0
    bump()
    iny
    bump()
    iny
    brk
}
