.test "t" {
    ldx #2
    loop: jsr sub
    dex
    bne loop
    lda #0
    brk
    sub: iny
    rts
}
