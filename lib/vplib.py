"""Common plumbing for the /verif checks: building, running TLC, evidence, findings.

Nothing in here decides a property. Verdicts come from TLC (see judge()).
"""
import fcntl
import json
import os
import random
import re
import shutil
import subprocess
import sys
import time

VERIF = os.path.dirname(os.path.dirname(os.path.abspath(__file__)))
REPO = os.environ.get("VERIF_REPO", "/repo")
WORK = os.environ.get("VERIF_WORK") or os.path.join(VERIF, ".work")
SPEC = os.path.join(VERIF, "spec")
EVID = os.path.join(VERIF, "evidence")
HARNESS_SRC = os.path.join(VERIF, "harness")
# with VERIF_REPO pointing at another checkout, the harness is built from a copy whose path dependency points there
HARNESS = HARNESS_SRC if REPO == "/repo" else os.path.join(WORK, "harness-copy-" + __import__("hashlib").md5(REPO.encode()).hexdigest()[:8])
GUARD = "datatrash_mos_verif"
# one target directory per source tree: cargo does not re-link the uplifted binary when it switches back to a tree whose
# units are still fresh, so a shared directory could hand out the binary of the tree built before
MOS_TARGET = os.path.join(WORK, "target-mos" if REPO == "/repo" else "target-mos-" + __import__("hashlib").md5(REPO.encode()).hexdigest()[:8])
MOS_BIN = os.path.join(MOS_TARGET, "debug", "mos")

EXIT_OK, EXIT_VIOLATION, EXIT_TOOL = 0, 1, 2


class ToolError(Exception):
    pass


def log(*a):
    print(*a, file=sys.stderr, flush=True)


def seed():
    try:
        return int(os.environ.get("VERIF_SEED", "1"))
    except ValueError:
        return 1


def rng(salt=""):
    return random.Random("%d/%s" % (seed(), salt))


def workdir(name):
    d = os.path.join(WORK, name)
    os.makedirs(d, exist_ok=True)
    return d


def fresh_dir(name):
    d = os.path.join(WORK, name)
    shutil.rmtree(d, ignore_errors=True)
    os.makedirs(d)
    return d


class _Lock:
    def __init__(self, name):
        os.makedirs(WORK, exist_ok=True)
        self.path = os.path.join(WORK, name + ".lock")

    def __enter__(self):
        self.f = open(self.path, "w")
        fcntl.flock(self.f, fcntl.LOCK_EX)

    def __exit__(self, *a):
        fcntl.flock(self.f, fcntl.LOCK_UN)
        self.f.close()


def _cargo_env(extra_rustflags=""):
    env = dict(os.environ)
    env["CARGO_NET_OFFLINE"] = "true"
    env.pop("RUSTFLAGS", None)
    if extra_rustflags:
        env["RUSTFLAGS"] = extra_rustflags
    return env


def build_harness(bins=None):
    """(Re)build the in-process harness against /repo's working tree (hooks on via harness/.cargo/config.toml)."""
    with _Lock("cargo-harness"):
        if HARNESS != HARNESS_SRC:
            os.makedirs(HARNESS, exist_ok=True)
            subprocess.run(["rsync", "-a", "--delete", "--exclude", "target", HARNESS_SRC + "/", HARNESS + "/"], check=True)
            ct = os.path.join(HARNESS, "Cargo.toml")
            txt = open(ct).read().replace("/repo/mos-core", os.path.join(REPO, "mos-core"))
            open(ct, "w").write(txt)
        cmd = ["cargo", "build", "--offline", "-q"]
        for b in bins or []:
            cmd += ["--bin", b]
        t = time.time()
        p = subprocess.run(cmd, cwd=HARNESS, env=_cargo_env(), capture_output=True, text=True)
        if p.returncode != 0:
            raise ToolError("harness build failed:\n" + p.stdout[-3000:] + p.stderr[-6000:])
        log("[build] harness ok (%.1fs)" % (time.time() - t))
    return os.path.join(HARNESS, "target", "debug")


def harness_bin(name):
    return os.path.join(HARNESS, "target", "debug", name)


def build_mos():
    """(Re)build the mos binary from /repo's working tree with the hook guard on."""
    with _Lock("cargo-mos"):
        flags = "--cfg %s --check-cfg cfg(%s) -Awarnings" % (GUARD, GUARD)
        cmd = ["cargo", "build", "--offline", "-q", "-p", "mos",
               "--manifest-path", os.path.join(REPO, "Cargo.toml"), "--target-dir", MOS_TARGET]
        t = time.time()
        p = subprocess.run(cmd, env=_cargo_env(flags), capture_output=True, text=True)
        if p.returncode != 0:
            raise ToolError("mos build failed:\n" + p.stdout[-3000:] + p.stderr[-6000:])
        log("[build] mos ok (%.1fs)" % (time.time() - t))
    return MOS_BIN


def run_harness(binname, cases, tag, timeout=3600, extra_args=None):
    """Write cases (list of dicts) as ndjson, run the harness binary, return list of observations."""
    d = workdir(tag)
    cin, cout = os.path.join(d, "cases.ndjson"), os.path.join(d, "obs.ndjson")
    write_ndjson(cin, cases)
    if os.path.exists(cout):
        os.remove(cout)
    p = subprocess.run([harness_bin(binname), cin, cout] + (extra_args or []), capture_output=True, text=True, timeout=timeout)
    obs = read_ndjson(cout) if os.path.exists(cout) else []
    return obs, p


def write_ndjson(path, rows):
    with open(path, "w") as f:
        for r in rows:
            f.write(json.dumps(r, separators=(",", ":")) + "\n")


def read_ndjson(path):
    out = []
    with open(path) as f:
        for line in f:
            line = line.strip()
            if line:
                out.append(json.loads(line))
    return out


# ---------------------------------------------------------------- TLC

TLC_JAR_CP = "/opt/veriftools/tla/tla2tools.jar:/opt/veriftools/tla/CommunityModules-deps.jar"


class TlcResult:
    def __init__(self, rc, out, wall):
        self.rc = rc
        self.out = out
        self.wall = wall
        self.generated = self.distinct = 0
        m = re.search(r"(\d+) states generated, (\d+) distinct states found", out)
        if m:
            self.generated, self.distinct = int(m.group(1)), int(m.group(2))
        else:
            # simulation mode
            m = re.search(r"(\d+) states checked", out)
            if m:
                self.generated = self.distinct = int(m.group(1))
        m = re.search(r"depth of the complete state graph search is (\d+)", out)
        self.depth = int(m.group(1)) if m else 0
        self.invariant_violated = "is violated" in out or "Error: Action property" in out or "Temporal properties were violated" in out
        self.error = ("Error:" in out) or rc not in (0,)
        self.coverage = parse_coverage(out)

    @property
    def ok(self):
        return self.rc == 0 and "No error has been found" in self.out or (self.rc == 0 and "Finished in" in self.out and "Error:" not in self.out)

    def prints(self, tag):
        """Values printed with PrintT(<<"tag", ...>>) : returns raw lines."""
        return [l for l in self.out.splitlines() if l.startswith('<<"%s"' % tag)]


def parse_coverage(out):
    """-coverage 1 output: '<Action line ..>: distinct:generated'. Returns {action: (distinct, generated)} of last report."""
    cov = {}
    for m in re.finditer(r"^<(\w+) line \d+, col \d+ to line \d+, col \d+ of module (\w+)>: (\d+):(\d+)", out, re.M):
        cov[m.group(1)] = (int(m.group(3)), int(m.group(4)))
    return cov


def tlc(module_path, cfg=None, env=None, workers=4, timeout=600, simulate=None, depth=None,
        coverage=False, deque=False, xmx="4g", extra=None, tag=None, seed_arg=None, deadlock=False):
    """Run TLC on module_path (absolute .tla path). Returns TlcResult. Raises ToolError on timeout."""
    specdir = os.path.dirname(module_path)
    mod = os.path.basename(module_path)
    tag = tag or (mod.replace(".tla", "") + "-%d-%d" % (os.getpid(), int(time.time() * 1000) % 100000000))
    meta = os.path.join(WORK, "tlc", tag)
    shutil.rmtree(meta, ignore_errors=True)
    os.makedirs(meta, exist_ok=True)
    jopts = "-Xss1g -DTLA-Library=" + ":".join(sorted(os.path.join(SPEC, d) for d in os.listdir(SPEC) if os.path.isdir(os.path.join(SPEC, d))))
    if deque:
        jopts += " -Dtlc2.tool.queue.IStateQueue=StateDeque"
    e = dict(os.environ)
    e["JAVA_TOOL_OPTIONS"] = jopts
    if env:
        e.update({k: str(v) for k, v in env.items()})
    cmd = ["timeout", str(timeout), "java", "-XX:+UseParallelGC", "-Xmx" + xmx, "-cp", TLC_JAR_CP, "tlc2.TLC",
           "-workers", str(workers), "-metadir", meta, "-cleanup", "-noGenerateSpecTE"]
    if not deadlock:
        cmd += ["-deadlock"]
    if coverage:
        cmd += ["-coverage", "1"]
    if simulate is not None:
        cmd += ["-simulate", "num=%d" % simulate]
        if depth:
            cmd += ["-depth", str(depth)]
    if seed_arg is not None:
        cmd += ["-seed", str(seed_arg)]
    if cfg:
        cmd += ["-config", cfg]
    cmd += (extra or []) + [mod]
    t = time.time()
    p = subprocess.run(cmd, cwd=specdir, env=e, capture_output=True, text=True)
    wall = time.time() - t
    shutil.rmtree(meta, ignore_errors=True)
    out = p.stdout + p.stderr
    if p.returncode == 124:
        raise ToolError("TLC timed out after %ss on %s" % (timeout, mod))
    r = TlcResult(p.returncode, out, wall)
    return r


def tlc_must_pass(module_path, **kw):
    r = tlc(module_path, **kw)
    if r.rc != 0 or "Error:" in r.out:
        raise ToolError("TLC failed on %s (rc=%d):\n%s" % (module_path, r.rc, tail(r.out, 60)))
    return r


def tail(s, n=40):
    return "\n".join(s.splitlines()[-n:])


def judge(module_path, records, cfg=None, env=None, tag="judge", timeout=1800, batch=4000, xmx="6g"):
    """Trace-judge: feed records (list of dicts, each with an 'id') to a *Trace.tla module.

    Contract of the TLA+ side: reads ndJsonDeserialize(IOEnv.TRACE); consumes one record per step;
    when all are consumed writes ndJsonSerialize(IOEnv.OUT, verdicts) where verdicts is a sequence of
    records [id, verdict, why] for every record that is not plainly accepted; and the POSTCONDITION
    requires that all records were consumed. Returns (verdict_rows, stats).
    """
    d = workdir(tag)
    verdicts = []
    stats = {"states": 0, "transitions": 0, "runs": 0, "wall": 0.0, "records": len(records)}
    for bi in range(0, len(records), batch):
        chunk = records[bi:bi + batch]
        tr = os.path.join(d, "trace-%d.ndjson" % bi)
        out = os.path.join(d, "verdict-%d.ndjson" % bi)
        write_ndjson(tr, chunk)
        if os.path.exists(out):
            os.remove(out)
        e = {"TRACE": tr, "OUT": out}
        e.update(env or {})
        r = tlc(module_path, cfg=cfg, env=e, workers=1, deque=True, timeout=timeout, xmx=xmx, tag="%s-%d" % (tag, bi))
        stats["runs"] += 1
        stats["wall"] += r.wall
        stats["states"] += r.distinct
        stats["transitions"] += r.generated
        if r.rc != 0 or not os.path.exists(out) or "Error:" in r.out:
            raise ToolError("judge %s failed (rc=%d) on batch %d:\n%s" % (os.path.basename(module_path), r.rc, bi, tail(r.out, 50)))
        if r.distinct < len(chunk) + 1:
            raise ToolError("judge consumed %d of %d records:\n%s" % (r.distinct - 1, len(chunk), tail(r.out, 30)))
        verdicts += read_ndjson(out)
    return verdicts, stats


# ---------------------------------------------------------------- findings / verdict reporting

def load_findings():
    path = os.path.join(VERIF, "known_findings.jsonl")
    rows = []
    if os.path.exists(path):
        for line in open(path):
            line = line.strip()
            if line and not line.startswith("#"):
                rows.append(json.loads(line))
    return rows


def open_deviations(prop):
    """Names of deviations that are recorded as open findings for this property."""
    return {f["deviation"]: f for f in load_findings() if f.get("property") == prop and f.get("status") == "open"}


class Report:
    """Collects verdicts for one check run, prints KNOWN-FINDING/VIOLATION lines, writes evidence."""

    def __init__(self, prop, tier, level="model_checking"):
        self.prop = prop
        self.tier = tier
        self.level = level
        self.t0 = time.time()
        self.violations = []   # list of dict(why, replay)
        self.known = {}        # deviation -> count
        self.cov = {"states": 0, "transitions": 0, "traces_validated_against_impl": 0, "samples": [],
                    "evaluations": 0, "distinct_nontrivial": 0, "rule": ""}
        self.assumptions = []
        self.notes = []
        self.open = open_deviations(prop)
        self._drift = []

    def add_tlc(self, r):
        self.cov["states"] += r.distinct
        self.cov["transitions"] += r.generated

    def add_stats(self, st):
        self.cov["states"] += st.get("states", 0)
        self.cov["transitions"] += st.get("transitions", 0)

    def sample(self, s, limit=6):
        if len(self.cov["samples"]) < limit:
            self.cov["samples"].append(s)

    def verdict(self, row, replay_obj):
        """row: dict(id, verdict, why[, dev]). verdict in {"violation","deviation","drift"}."""
        v = row.get("verdict")
        if v == "deviation" and row.get("dev") in self.open:
            self.known[row["dev"]] = self.known.get(row["dev"], 0) + 1
            self.known.setdefault("_ex_" + row["dev"], row.get("why", ""))
            return
        if v == "drift":
            self._drift.append(row)
            return
        self.violations.append({"why": "%s %s" % (row.get("dev", ""), row.get("why", "")), "replay": replay_obj, "id": row.get("id")})

    def finish(self):
        os.makedirs(EVID, exist_ok=True)
        for dev, f in self.open.items():
            n = self.known.get(dev, 0)
            if n:
                print("KNOWN-FINDING: property=%s %s (%s) observed %d time(s) e.g. %s" % (self.prop, dev, f.get("witness", ""), n, str(self.known.get("_ex_" + dev, ""))[:160]))
        for d in self._drift[:5]:
            print("MODEL-DRIFT %s %s" % (self.prop, json.dumps(d)[:300]))
        rc = EXIT_OK
        rdir = os.path.join(EVID, "replays", self.prop)
        if os.path.isdir(rdir):      # replays of earlier runs of this tier are stale now
            for fn in os.listdir(rdir):
                if fn.startswith("violation-%s-" % self.tier):
                    os.remove(os.path.join(rdir, fn))
        if self.violations:
            os.makedirs(rdir, exist_ok=True)
            for i, v in enumerate(self.violations[:10]):
                path = os.path.join(rdir, "violation-%s-%d.json" % (self.tier, i))
                with open(path, "w") as f:
                    json.dump(v, f, indent=1, default=str)
                print("VIOLATION property=%s replay=%s" % (self.prop, path))
                log("   why:", str(v["why"])[:400])
            rc = EXIT_VIOLATION
        ev = {
            "property_id": self.prop,
            "tier": self.tier,
            "seed": seed(),
            "level": self.level,
            "coverage": self.cov,
            "assumptions": self.assumptions,
            "wall_s": round(time.time() - self.t0, 2),
            "violations": len(self.violations),
            "known_findings_observed": {k: v for k, v in self.known.items() if not k.startswith("_ex_")},
            "model_drift": len(self._drift),
            "notes": self.notes,
        }
        with open(os.path.join(EVID, "%s.json" % self.prop), "w") as f:
            json.dump(ev, f, indent=1, default=str)
        log("[%s %s] %s  states=%d traces=%d wall=%.1fs" % (self.prop, self.tier, "VIOLATION" if rc else "ok",
                                                     self.cov["states"], self.cov["traces_validated_against_impl"], ev["wall_s"]))
        return rc


def main_wrapper(fn):
    """Run a check's main(tier) with uniform exit codes."""
    tier = os.environ.get("VERIF_TIER") or (sys.argv[1] if len(sys.argv) > 1 else "quick")
    if len(sys.argv) > 1 and sys.argv[1] in ("quick", "thorough"):
        tier = sys.argv[1]
    try:
        rc = fn(tier)
    except ToolError as e:
        log("TOOL-ERROR:", e)
        sys.exit(EXIT_TOOL)
    except subprocess.TimeoutExpired as e:
        log("TOOL-ERROR: timeout", e)
        sys.exit(EXIT_TOOL)
    sys.exit(rc)


def clip32(v):
    """TLC integers are 32-bit: values outside are replaced by a sentinel of the same sign that no model value reaches
    (an integer, not a string: a judge that compares it with what the specification expects answers 'differs' instead of
    failing with a type error - an out-of-range value in an observation is a finding, not a tool failure)."""
    if isinstance(v, bool):
        return v
    if isinstance(v, int) and not (-1999999999 < v < 1999999999):
        return 1999999999 if v > 0 else -1999999999
    return v


def clip_tree(x):
    if isinstance(x, dict):
        return {k: clip_tree(v) for k, v in x.items()}
    if isinstance(x, list):
        return [clip_tree(v) for v in x]
    return clip32(x)
