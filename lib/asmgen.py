"""Program ASTs in the shape spec/Asm/Asm.tla reads, their rendering to mos source text, and seeded generators.

The AST is the source of truth; render() is plain pretty-printing. Nothing here knows what a program assembles to.
"""

# ------------------------------------------------------------------ expression trees (Expr.tla shapes)

def num(n, radix="dec", lz=0):
    return {"k": "num", "n": n, "radix": radix, "lz": lz}


def ident(path, mod=""):
    if isinstance(path, str):
        path = path.split(".")
    return {"k": "id", "name": ".".join(path), "path": list(path), "mod": mod}


def pc():
    return {"k": "pc"}


def binop(op, l, r):
    return {"k": "bin", "op": op, "l": l, "r": r}


def par(e):
    return {"k": "par", "e": e}


def neg(e):
    return {"k": "fac", "nt": False, "ng": True, "e": e}


def render_num(t):
    n, radix, lz = t["n"], t["radix"], t["lz"]
    if radix == "dec":
        return "0" * lz + str(n)
    if radix == "hex":
        return "$" + "0" * lz + "%x" % n
    return "%" + "0" * lz + bin(n)[2:]


MUL = {"*", "/", "%"}
ADD = {"+", "-"}


def render_expr(t):
    k = t["k"]
    if k == "num":
        return render_num(t)
    if k == "bool":
        return "true" if t["b"] else "false"
    if k == "id":
        return t["mod"] + ".".join(t["path"])
    if k == "pc":
        return "*"
    if k == "par":
        return "(" + render_expr(t["e"]) + ")"
    if k == "fac":
        return ("!" if t["nt"] else "") + ("-" if t["ng"] else "") + render_expr(t["e"])
    if k == "def":
        return "defined(%s)" % ".".join(t["path"])
    if k == "bin":
        op = t["op"]

        def side(x, left):
            s = render_expr(x)
            if x["k"] == "bin":
                xo = x["op"]
                tighter = xo in MUL and op in ADD
                same = (xo in MUL and op in MUL) or (xo in ADD and op in ADD) or xo == op
                if not (tighter or (left and same)):
                    s = "(" + s + ")"
            return s
        return side(t["l"], True) + " " + op + " " + side(t["r"], False)
    raise ValueError(k)


# ------------------------------------------------------------------ statements

FORM_TMPL = {
    "imp": "{mn}", "imm": "{mn} #{e}", "dir": "{mn} {e}", "dirx": "{mn} {e},x", "diry": "{mn} {e},y",
    "indx": "{mn} ({e},x)", "indy": "{mn} ({e}),y", "ind": "{mn} ({e})",
}


def insn(mn, form="imp", e=None):
    return {"k": "insn", "mn": mn, "form": form, "e": e if e is not None else num(0)}


def label(name, body=None):
    return {"k": "label", "name": name, "hasBody": body is not None, "body": body or []}


def braces(body):
    return {"k": "braces", "sid": "", "body": body}


def data(w, es):
    return {"k": "data", "w": w, "es": es}


def setpc(e):
    return {"k": "setpc", "e": e}


def align(e):
    return {"k": "align", "e": e}


def const(name, e, var=False):
    return {"k": "var" if var else "const", "name": name, "e": e}


def defseg(name, start, pc_=None):
    return {"k": "defseg", "name": name, "start": start, "hasPc": pc_ is not None, "pc": pc_ if pc_ is not None else num(0)}


def useseg(name, body=None):
    return {"k": "useseg", "name": name, "hasBody": body is not None, "body": body or []}


def if_(e, then, else_=None):
    return {"k": "if", "e": e, "then": then, "hasElse": else_ is not None, "else": else_ or []}


def loop(e, body):
    return {"k": "loop", "e": e, "sid": "", "body": body}


def macrodef(name, params, body):
    return {"k": "macrodef", "name": name, "params": params, "body": body}


def macrocall(name, args):
    return {"k": "macrocall", "name": name, "args": args}


WNAME = {1: ".byte", 2: ".word", 4: ".dword"}


def render(prog, indent=0, out=None, pos=None):
    """Render to text. Records for every statement its 1-based line in st['line'] (first line of the statement)."""
    top = out is None
    if top:
        out = []
    pad = "  " * indent
    for st in prog:
        k = st["k"]
        st["line"] = len(out) + 1
        st["col"] = len(pad) + 1
        if k == "insn":
            text = FORM_TMPL[st["form"]].format(mn=st["mn"], e=render_expr(st["e"]))
            if st.get("split") and " " in text:
                # a statement that spans two source lines: only a block comment can carry the line break
                head, rest = text.split(" ", 1)
                out.append(pad + head + " /* operand on the")
                if st["split"] == 3:      # ... or three: a line in the middle that neither begins nor ends the statement
                    out.append("")
                out.append(pad + "   next line */ " + rest)
            else:
                out.append(pad + text)
        elif k == "label":
            if st["hasBody"]:
                out.append(pad + st["name"] + ": {")
                render(st["body"], indent + 1, out)
                out.append(pad + "}")
            else:
                out.append(pad + st["name"] + ":")
        elif k == "braces":
            out.append(pad + "{")
            render(st["body"], indent + 1, out)
            out.append(pad + "}")
        elif k == "data":
            out.append(pad + WNAME[st["w"]] + " " + ", ".join(render_expr(e) for e in st["es"]))
        elif k == "setpc":
            out.append(pad + "* = " + render_expr(st["e"]))
        elif k == "align":
            out.append(pad + ".align " + render_expr(st["e"]))
        elif k in ("const", "var"):
            out.append(pad + "." + k + " " + st["name"] + " = " + render_expr(st["e"]))
        elif k == "defseg":
            s = pad + '.define segment { name = "%s" start = %s' % (st["name"], render_expr(st["start"]))
            if st["hasPc"]:
                s += " pc = " + render_expr(st["pc"])
            out.append(s + " }")
        elif k == "useseg":
            if st["hasBody"]:
                out.append(pad + '.segment "%s" {' % st["name"])
                render(st["body"], indent + 1, out)
                out.append(pad + "}")
            else:
                out.append(pad + '.segment "%s"' % st["name"])
        elif k == "if":
            out.append(pad + ".if " + render_expr(st["e"]) + " {")
            render(st["then"], indent + 1, out)
            if st["hasElse"]:
                out.append(pad + "} else {")
                render(st["else"], indent + 1, out)
            out.append(pad + "}")
        elif k == "loop":
            out.append(pad + ".loop " + render_expr(st["e"]) + " {")
            render(st["body"], indent + 1, out)
            out.append(pad + "}")
        elif k == "macrodef":
            out.append(pad + ".macro %s(%s) {" % (st["name"], ", ".join(st["params"])))
            render(st["body"], indent + 1, out)
            out.append(pad + "}")
        elif k == "macrocall":
            out.append(pad + "%s(%s)" % (st["name"], ", ".join(render_expr(a) for a in st["args"])))
        else:
            raise ValueError(k)
    if top:
        return "\n".join(out) + "\n"


def walk(prog, f, scope=()):
    """Call f(stmt, scope) for every statement, pre-order."""
    for st in prog:
        f(st, scope)
        k = st["k"]
        if k == "label" and st["hasBody"]:
            walk(st["body"], f, scope + (st["name"],))
        elif k in ("braces", "loop"):
            walk(st["body"], f, scope + (st["sid"] or "$anon",))
        elif k == "useseg" and st["hasBody"]:
            walk(st["body"], f, scope)
        elif k == "if":
            walk(st["then"], f, scope)
            walk(st["else"], f, scope)
        elif k == "macrodef":
            walk(st["body"], f, scope + ("$macrodef",))
        elif k == "test":
            walk(st["body"], f, scope + ("$test",))


def number_statements(prog):
    """Give every statement a unique sid-like index 'n' (pre-order) used as source-map key."""
    c = [0]

    def f(st, scope):
        c[0] += 1
        st["n"] = c[0]
    walk(prog, f)
    return c[0]


def anon_scopes_postorder(prog, acc=None):
    """Anonymous-scope statements (braces, loop) in the order the parser numbers them: a block's scope
    is created after its body has been parsed (post-order)."""
    if acc is None:
        acc = []
    for st in prog:
        k = st["k"]
        if k == "label" and st["hasBody"]:
            anon_scopes_postorder(st["body"], acc)
        elif k in ("braces", "loop"):
            anon_scopes_postorder(st["body"], acc)
            acc.append(st)
        elif k == "useseg" and st["hasBody"]:
            anon_scopes_postorder(st["body"], acc)
        elif k == "if":
            anon_scopes_postorder(st["then"], acc)
            anon_scopes_postorder(st["else"], acc)
        elif k == "macrodef":
            anon_scopes_postorder(st["body"], acc)
    return acc


def assign_anon_scopes(prog, observed_symbol_paths, parser_ids=None):
    """Name the AST's anonymous scopes after the implementation's '$scope_<n>' identifiers.
    With parser_ids (the harness reports the parser's scope names of the entry file in the same post-order) the naming is exact.
    The parser hands out increasing numbers in post-order (numbers may be skipped when it backtracks),
    so the k-th anonymous scope of the AST in post-order is the k-th smallest observed number.
    Scopes that never got a symbol (no segment active) do not show up; then counts differ and we return False."""
    import re
    sts = anon_scopes_postorder(prog)
    if parser_ids is not None:
        if len(parser_ids) != len(sts):
            return False
        for st, n in zip(sts, parser_ids):
            st["sid"] = n
        return True
    nums = sorted({int(m.group(1)) for p in observed_symbol_paths for m in re.finditer(r"\$scope_(\d+)", p)})
    if len(nums) != len(sts):
        return False
    for st, n in zip(sts, nums):
        st["sid"] = "$scope_%d" % n
    return True


def assign_file_scopes(files, file_ids):
    """The same naming for the anonymous scopes of the imported files (an imported file may import, loop or brace itself):
    file_ids = the harness's per-file parser scope names. Files without anonymous scopes need none."""
    for fn, fp in files.items():
        sts = anon_scopes_postorder(fp)
        if not sts:
            continue
        ids = (file_ids or {}).get(fn)
        if ids is None or len(ids) != len(sts):
            return False
        for st, n in zip(sts, ids):
            st["sid"] = n
    return True


def tla_ready(prog):
    """Deep copy of the AST with only the fields Asm.tla reads (sid = statement number as string where the spec wants one)."""
    out = []
    for st in prog:
        k = st["k"]
        c = {"k": k, "sid": st.get("sid") if k in ("braces", "loop") else str(st.get("n", 0))}
        if k == "insn":
            c.update(mn=st["mn"], form=st["form"], e=st["e"])
        elif k == "label":
            c.update(name=st["name"], hasBody=st["hasBody"], body=tla_ready(st["body"]))
        elif k == "braces":
            c.update(body=tla_ready(st["body"]))
        elif k == "data":
            c.update(w=st["w"], es=st["es"])
        elif k in ("setpc", "align"):
            c.update(e=st["e"])
        elif k in ("const", "var"):
            c.update(name=st["name"], e=st["e"])
        elif k == "defseg":
            c.update(name=st["name"], start=st["start"], hasPc=st["hasPc"], pc=st["pc"])
        elif k == "useseg":
            c.update(name=st["name"], hasBody=st["hasBody"], body=tla_ready(st["body"]))
        elif k == "if":
            c.update(e=st["e"], then=tla_ready(st["then"]), hasElse=st["hasElse"], **{"else": tla_ready(st["else"])})
        elif k == "loop":
            c.update(e=st["e"], body=tla_ready(st["body"]))
        elif k == "macrodef":
            c.update(name=st["name"], params=st["params"], body=tla_ready(st["body"]))
        elif k == "macrocall":
            c.update(name=st["name"], args=st["args"])
        out.append(c)
    return out


def separate_label_from_braces(prog):
    """`name:` followed (even on the next line) by `{` is one statement to the parser (a label with a block),
    so a bare block may not directly follow a block-less label: put a nop between them."""
    i = 0
    while i < len(prog):
        st = prog[i]
        for key in ("body", "then", "else"):
            if isinstance(st.get(key), list):
                separate_label_from_braces(st[key])
        if st["k"] in ("label", "useseg") and not st["hasBody"] and i + 1 < len(prog) and prog[i + 1]["k"] == "braces":     # (`.segment "s"` alike)
            prog.insert(i + 1, insn("nop"))
        i += 1


# ------------------------------------------------------------------ seeded generator for C02-style programs

ZP_ABS = ["lda", "sta", "ldx", "ldy", "adc", "and", "cmp", "ora", "eor", "inc", "dec", "asl", "bit", "stx", "sty", "cpx"]
BRANCHES = ["bne", "beq", "bcc", "bcs", "bpl", "bmi", "bvc", "bvs"]


class Gen:
    """Random programs whose labels sit around the zero-page boundary so that reference resolution flips
    instruction sizes between passes; nested scopes with shadowed names, dotted and super paths, constants,
    `* =`, `.align`, optionally two segments (one relocated).
    Phase 1 builds the statement skeleton with unique definitions per scope and reference placeholders;
    phase 2 fills each placeholder with a spelling that resolves under the documented scoping rules
    (the generator only tries to produce valid programs; what a spelling means is decided by the spec)."""

    def __init__(self, rnd, nstmts, segments=False):
        self.r = rnd
        self.segments = segments
        self.names = ["a", "b", "c", "d", "e"]
        self.defs = {}       # scope tuple -> {name: "label"|"block"|"const"}
        self.holes = []      # (expr dict to patch, scope tuple, kind)
        self.budget = nstmts
        self.anon = 0
        self.ntests = 0
        self.chained = False
        self.extras = True   # .text with interpolated symbols, .test blocks, .assert/.trace (no bytes in a build)

    def define(self, scope, kind):
        d = self.defs.setdefault(scope, {})
        free = [n for n in self.names if n not in d]
        if not free:
            return None
        n = self.r.choice(free)
        d[n] = kind
        return n

    def hole(self, scope, kind="any"):
        e = {"k": "id", "name": "?", "path": ["?"], "mod": ""}
        self.holes.append((e, scope, kind))
        return e

    def operand(self, scope):
        r = self.r
        e = self.hole(scope)
        z = r.random()
        if z < 0.2:
            return binop(r.choice(["+", "-"]), e, num(r.choice([1, 2, 3, 16])))
        if z < 0.3:
            e["mod"] = r.choice("<>")
        return e

    def stmt(self, scope, depth):
        r = self.r
        self.budget -= 1
        x = r.random()
        if x < 0.22:
            if depth < 2 and r.random() < 0.4:
                nm = self.define(scope, "block")
                if nm:
                    return label(nm, self.block(scope + (nm,), depth + 1))
            nm = self.define(scope, "label")
            return label(nm) if nm else insn("nop")
        if x < 0.50:
            mn = r.choice(ZP_ABS)
            form = "dirx" if (mn in ("lda", "sta", "adc", "and", "cmp", "ora", "eor") and r.random() < 0.3) else "dir"
            return insn(mn, form, self.operand(scope))
        if x < 0.58:
            return insn("jmp", "dir", self.operand(scope))
        if x < 0.66:
            return insn(r.choice(BRANCHES), "dir", self.hole(scope, "near"))
        if x < 0.72:
            e = self.hole(scope)
            e["mod"] = r.choice("<>")
            return insn("lda", "imm", e)
        if x < 0.80:
            w = r.choice([1, 2, 2, 4])
            if w == 1:
                e = self.hole(scope)
                e["mod"] = r.choice("<>")
                return data(1, [e, num(r.randrange(256))])
            return data(w, [self.operand(scope)])
        if self.extras and x < 0.815:
            part = {"ref": "?", "path": ["?"]}
            self.holes.append((part, scope, "text"))
            st = {"k": "text", "enc": r.choice(["", "", "ascii", "petscii"]), "e": {"k": "istr", "parts": [{"lit": [ord(c) for c in r.choice(["", "a", "v=", "0"])]}, part] + ([{"lit": [ord("z")]}] if r.random() < 0.3 else [])}}
            return st
        if self.extras and x < 0.83:
            z = r.random()
            if z < 0.4 and depth == 0:
                self.ntests += 1
                return {"k": "test", "name": "t%d" % self.ntests, "body": [insn("lda", "imm", num(r.randrange(256))), {"k": "assert", "e": binop("==", ident(["cpu", "a"]), num(1)), "msg": None}, insn("brk")]}
            if z < 0.7:
                return {"k": "assert", "e": binop("==", self.operand(scope), num(r.randrange(4))), "msg": r.choice([None, "m"])}
            return {"k": "trace", "es": [self.operand(scope)] if r.random() < 0.7 else []}
        if x < 0.84:
            return insn(r.choice(["nop", "inx", "rts", "asl"]))
        if x < 0.88:
            return align(num(r.choice([2, 4, 8, 16])))
        if x < 0.91:
            if depth == 0 and r.random() < 0.35:
                return setpc(num(r.choice([0xE0, 0xF0, 0xFB, 0x100, 0x1000, 0x3000]), "hex"))   # also backwards
            return setpc(binop("+", pc(), num(r.choice([1, 2, 3, 5]))))
        if x < 0.96:
            if self.extras and r.random() < 0.3:
                # variables are sequential: assigned again (in terms of themselves), read before and after
                vs = [n for n, k in self.defs.get(scope, {}).items() if k == "var"]
                if vs and r.random() < 0.6:
                    nm = r.choice(vs)
                    return const(nm, binop("+", ident([nm]), num(r.choice([1, 2, 255]))), var=True)
                nm = self.define(scope, "var")
                if nm:
                    return const(nm, num(r.choice([0, 1, 254, 4660])), var=True)
            nm = self.define(scope, "const")
            if nm:
                return const(nm, self.operand(scope) if r.random() < 0.7 else num(r.choice([0, 1, 255, 256, 4660])))
            return insn("nop")
        if depth < 2:
            self.anon += 1
            return braces(self.block(scope + ("$anon%d" % self.anon,), depth + 1))
        return insn("nop")

    def block(self, scope, depth):
        out = []
        k = self.r.randrange(1, 5)
        while k > 0 and self.budget > 0:
            out.append(self.stmt(scope, depth))
            k -= 1
        return out

    def spellings(self, scope, kind):
        """Paths that resolve from `scope`: plain names (bubbling), super.<name>, <block>.<name>, - and +."""
        out = []
        for i in range(len(scope), -1, -1):
            for n, k in self.defs.get(scope[:i], {}).items():
                out.append([n])
                if k == "block":
                    for m in self.defs.get(scope[:i] + (n,), {}):
                        out.append([n, m])
        if self.segments and kind != "near":
            out += [["segments", sg, e] for sg in ("sa", "sb") for e in ("start", "end")]
        if scope:
            for n in self.defs.get(scope[:-1], {}):
                out.append(["super", n])
            if len(scope) > 1:
                for n in self.defs.get(scope[:-2], {}):
                    out.append(["super", "super", n])
            out += [["-"], ["+"]]
        return out

    def fill(self):
        for e, scope, kind in self.holes:
            c = self.spellings(scope, kind)
            if kind == "text":
                c = [p for p in c if p[-1] not in ("-", "+")]
                if not c:
                    e.clear()
                    e["lit"] = [48]
                else:
                    pth = self.r.choice(c)
                    e["path"] = pth
                    e["ref"] = ".".join(pth)
                continue
            if not c:
                e.update(k="num", n=self.r.choice([0x10, 0x1234]), radix="hex", lz=0)
                e.pop("path", None)
                e.pop("mod", None)
                e.pop("name", None)
                continue
            p = self.r.choice(c)
            if p[-1] in ("-", "+"):
                e["mod"] = ""
            e["path"] = p
            e["name"] = ".".join(p)

    def program(self):
        r = self.r
        prog = []
        if self.segments:
            if r.random() < 0.08:      # code in front of the first segment definition has nowhere to go: the build must say so
                prog.append(insn(r.choice(["nop", "inx"])) if r.random() < 0.6 else data(1, [num(1)]))
            a0 = r.choice([0xF0, 0xF8, 0xFC, 0x1000])
            prog.append(defseg("sa", num(a0, "hex")))
            b0 = r.choice([0x4000, 0x00E0, 0xFA])
            relocated = r.random() < 0.7
            # every third time the second segment is chained to the end of the first: its place moves with every byte the
            # first one gains, and the segment symbols are the last thing to settle
            self.chained = r.random() < 0.35
            bstart = ident(["segments", "sa", "end"]) if self.chained else num(b0, "hex")
            prog.append(defseg("sb", bstart, num(r.choice([0x8000, 0x00F0, 0x0200]), "hex") if (relocated and not self.chained) else None))
        else:
            if r.random() < 0.3:       # some code at the default origin first
                prog += self.block((), 0)
            prog.append(setpc(num(r.choice([0xF0, 0xF4, 0xF8, 0xFA, 0xFC, 0xFE, 0x100, 0x2000]), "hex")))
        while self.budget > 0:
            if self.segments and r.random() < 0.15:
                if r.random() < 0.6:
                    prog.append(useseg(r.choice(["sa", "sb"]), self.block((), 1)))
                else:
                    prog.append(useseg(r.choice(["sa", "sb"])))
                self.budget -= 1
            else:
                prog.append(self.stmt((), 0))
        self.fill()
        separate_label_from_braces(prog)
        return prog


# ------------------------------------------------------------------ generator for C07 (constructs and their expansion)

def text(parts, enc=""):
    """parts: list of str (literal) or ("ref", name)"""
    ps = [{"lit": [ord(c) for c in x]} if isinstance(x, str) else {"ref": x[1]} for x in parts]
    return {"k": "text", "enc": enc, "e": {"k": "istr", "parts": ps}}


def assert_(e, msg=None):
    return {"k": "assert", "e": e, "msg": msg}


def trace(es):
    return {"k": "trace", "es": es}


def test(name, body):
    return {"k": "test", "name": name, "body": body}


def import_(file, as_=None, params=None, sel=None):
    """sel: list of (name, as) for `.import name as other, ... from`; None/[] for `.import *`"""
    return {"k": "import", "file": file, "sid": "", "hasAs": as_ is not None, "as": as_ or "", "hasParams": params is not None, "params": params or [],
            "sel": [{"name": n, "as": a} for n, a in (sel or [])]}


_render_old = render


def render(prog, indent=0, out=None, pos=None):          # extends the renderer with imports
    top = out is None
    if top:
        out = []
    pad = "  " * indent
    for st in prog:
        if st["k"] == "import":
            st["line"] = len(out) + 1
            st["col"] = len(pad) + 1
            if st.get("sel"):
                what = ", ".join(x["name"] + (" as " + x["as"] if x["as"] != x["name"] else "") for x in st["sel"])
            else:
                what = "*" + (" as " + st["as"] if st["hasAs"] else "")
            s = pad + ".import " + what + ' from "%s"' % st["file"]
            if st["hasParams"]:
                out.append(s + " {")
                render(st["params"], indent + 1, out)
                out.append(pad + "}")
            else:
                out.append(s)
        else:
            _render_one(st, indent, out)
    if top:
        return "\n".join(out) + "\n"


def _render_one(st, indent, out):
    # render a single non-import statement with the base renderer, recursing through this module's render for bodies
    k = st["k"]
    pad = "  " * indent
    if k in ("insn", "data", "setpc", "align", "const", "var", "defseg", "macrocall") or (k == "label" and not st["hasBody"]) or (k == "useseg" and not st["hasBody"]):
        _render_old([st], indent, out)
        return
    st["line"] = len(out) + 1
    st["col"] = len(pad) + 1
    if k == "text":
        body = "".join("".join(chr(c) for c in p["lit"]) if "lit" in p else "{" + p["ref"] + "}" for p in st["e"]["parts"])
        out.append(pad + ".text " + (st["enc"] + " " if st["enc"] else "") + '"' + body + '"')
    elif k == "assert":
        out.append(pad + ".assert " + render_expr(st["e"]) + (' "%s"' % st["msg"] if st.get("msg") else ""))
    elif k == "trace":
        out.append(pad + ".trace" + (" (" + ", ".join(render_expr(e) for e in st["es"]) + ")" if st["es"] else ""))
    elif k == "test":
        out.append(pad + '.test "%s" {' % st["name"]); render(st["body"], indent + 1, out); out.append(pad + "}")
    elif k == "label":
        out.append(pad + st["name"] + ": {"); render(st["body"], indent + 1, out); out.append(pad + "}")
    elif k == "braces":
        out.append(pad + "{"); render(st["body"], indent + 1, out); out.append(pad + "}")
    elif k == "useseg":
        out.append(pad + '.segment "%s" {' % st["name"]); render(st["body"], indent + 1, out); out.append(pad + "}")
    elif k == "if":
        out.append(pad + ".if " + render_expr(st["e"]) + " {"); render(st["then"], indent + 1, out)
        if st["hasElse"]:
            out.append(pad + "} else {"); render(st["else"], indent + 1, out)
        out.append(pad + "}")
    elif k == "loop":
        out.append(pad + ".loop " + render_expr(st["e"]) + " {"); render(st["body"], indent + 1, out); out.append(pad + "}")
    elif k == "macrodef":
        out.append(pad + ".macro %s(%s) {" % (st["name"], ", ".join(st["params"]))); render(st["body"], indent + 1, out); out.append(pad + "}")
    else:
        raise ValueError(k)


_tla_ready_old = tla_ready


def tla_ready(prog):
    out = []
    for st in prog:
        if st["k"] == "import":
            out.append({"k": "import", "sid": st.get("sid") or "", "file": st["file"], "hasAs": st["hasAs"], "as": st["as"],
                        "hasParams": st["hasParams"], "params": tla_ready(st["params"]), "sel": st.get("sel", [])})
        elif st["k"] == "text":
            out.append({"k": "text", "sid": str(st.get("n", 0)), "enc": st["enc"], "e": st["e"]})
        elif st["k"] in ("assert", "trace"):
            out.append({"k": st["k"], "sid": str(st.get("n", 0))})
        elif st["k"] == "test":
            out.append({"k": "test", "sid": str(st.get("n", 0)), "name": st["name"]})
        else:
            c = _tla_ready_old([st])[0]
            for key in ("body", "then", "else"):
                if key in c and isinstance(st.get(key), list):
                    c[key] = tla_ready(st[key])
            out.append(c)
    return out


_anon_old = anon_scopes_postorder


def anon_scopes_postorder(prog, acc=None):
    if acc is None:
        acc = []
    for st in prog:
        k = st["k"]
        if k == "label" and st["hasBody"]:
            anon_scopes_postorder(st["body"], acc)
        elif k in ("braces", "loop"):
            anon_scopes_postorder(st["body"], acc)
            acc.append(st)
        elif k == "useseg" and st["hasBody"]:
            anon_scopes_postorder(st["body"], acc)
        elif k == "if":
            anon_scopes_postorder(st["then"], acc)
            anon_scopes_postorder(st["else"], acc)
        elif k == "macrodef":
            anon_scopes_postorder(st["body"], acc)
        elif k == "import":
            anon_scopes_postorder(st["params"], acc)
            acc.append(st)
    return acc


def from_tla(prog):
    """Statements coming back from TLC (ExpandTrace) -> the Python AST shape (adds defaults the renderer wants)."""
    out = []
    for st in prog:
        st = dict(st)
        for key in ("body", "then", "else", "params"):
            if key in st and isinstance(st[key], list) and key != "params" or (key == "params" and st.get("k") == "import"):
                st[key] = from_tla(st[key]) if isinstance(st.get(key), list) else st.get(key)
        if st["k"] in ("braces", "loop", "import"):
            st["sid"] = ""
        out.append(st)
    return out


class Gen7:
    """Programs built from .loop / .if-else / macros / .const / brace scopes / .import, nested up to `depth`,
    with bodies of instructions on outer symbols, data on `index`, forward references out of the body and
    (outside loops) labels inside bodies. All names are unique so that the by-hand expansion is unambiguous."""

    def __init__(self, rnd, depth=3):
        self.r = rnd
        self.depth = depth
        self.n = 0
        self.macros = []       # (name, nparams)
        self.consts = []
        self.outer = ["dat", "tgt"]       # labels defined at top level (dat before the constructs, tgt after)
        self.imp_names = []
        self.shadowing = set() # macros whose first parameter is named like the outer constant kk0
        self.leaks = []        # labels inside branches that are never selected (their conditions are forward references)
        self.late = False      # forward constants lateT = 1 / lateF = 0 are defined at the end of the program

    def fresh(self, p):
        self.n += 1
        return "%s%d" % (p, self.n)

    def value(self, in_loop, params):
        r = self.r
        opts = [num(r.choice([0, 1, 2, 7, 100]))]
        if in_loop:
            opts += [ident(["index"]), binop("*", ident(["index"]), num(2)), binop("+", ident(["index"]), num(1))]
        if params:
            opts += [ident([r.choice(params)])]
        if self.consts:
            opts += [ident([r.choice(self.consts)])]
        return r.choice(opts)

    def body(self, d, in_loop, params, allow_label):
        r = self.r
        out = []
        for _ in range(r.randrange(1, 4)):
            x = r.random()
            if x < 0.25:
                out.append(insn(r.choice(["lda", "ldx", "ldy"]), "imm", self.value(in_loop, params)))
            elif x < 0.40:
                out.append(insn(r.choice(["sta", "lda", "inc"]), "dir", binop("+", ident([r.choice(self.outer)]), self.value(in_loop, params)) if r.random() < 0.6 else ident([r.choice(self.outer)])))
            elif x < 0.50:
                out.append(data(r.choice([1, 2]), [self.value(in_loop, params)]))
            elif x < 0.58:
                out.append(insn("jmp", "dir", ident(["tgt"])))
            elif x < 0.66 and allow_label and not in_loop:
                nm = self.fresh("l")
                out += [label(nm), insn("dex"), insn("bne", "dir", ident([nm]))]
            elif x < 0.9 and d < self.depth:
                out.append(self.construct(d + 1, in_loop, params, allow_label))
            else:
                out.append(insn(r.choice(["nop", "inx", "clc"])))
        return out

    def cond(self, in_loop, params):
        r = self.r
        c = [num(0), num(1), num(5)]
        if in_loop:
            c += [binop("==", ident(["index"]), num(1)), binop("-", ident(["index"]), num(1)), binop("%", ident(["index"]), num(2)),
                  binop("<", ident(["index"]), num(1))]
        if params:
            c += [ident([params[0]]), binop(">", ident([params[0]]), num(3))]
        return r.choice(c)

    def construct(self, d, in_loop, params, allow_label):
        r = self.r
        x = r.random()
        if d == 1 and not in_loop and not params and allow_label and r.random() < 0.2:
            # a condition that is a forward reference (unknown in the first pass): the branch that is never selected defines
            # a label, and the program later asks whether that label is defined -- it must not be
            self.late = True
            lk = self.fresh("leak")
            self.leaks.append(lk)
            # ... and a label named like the outer label `dat`, referenced after the .if inside the same brace scope:
            # the reference must denote the outer `dat` (the hand expansion has only the selected branch)
            which = r.choice(["constT", "constF", "labelT"])
            # constants exist from the very first pass (labels only once a segment exists): a constant condition is unknown only
            # then, and only constants can leak out of its dead branch; a label condition stays unknown one pass longer
            dead = [label(lk), insn("nop")] + ([const("kk0", num(r.choice([80, 300])))] if which != "labelT" else [label("dat"), insn("nop")])
            live = self.body(d, False, [], True)
            if which == "constT":
                st = if_(ident(["lateT"]), live, dead)
            elif which == "constF":
                st = if_(ident(["lateF"]), dead, live if r.random() < 0.7 else None)
            else:
                st = if_(binop(">", ident(["tgt"]), num(0)), live, dead)
            if which != "labelT":
                return braces([st, insn("ldx", "imm", ident(["kk0"])), data(2, [ident(["kk0"])])])
            return braces([st, insn("lda", "dir", ident(["dat"])), data(2, [ident(["dat"])])])
        if x < 0.3:
            return loop(num(r.choice([0, 1, 2, 3])), self.body(d, True, params, False))
        if x < 0.55:
            has_else = r.random() < 0.6
            return if_(self.cond(in_loop, params), self.body(d, in_loop, params, allow_label), self.body(d, in_loop, params, allow_label) if has_else else None)
        if x < 0.8 and self.macros:
            nm, k = r.choice(self.macros)
            args = [self.value(in_loop, params) for _ in range(k)]
            if nm in self.shadowing and k >= 2:
                # the first parameter is named like the outer constant kk0: a later argument that mentions kk0 denotes the parameter
                args[1] = binop("+", ident(["kk0"]), num(1))
            return macrocall(nm, args)
        b = self.body(d, in_loop, params, allow_label)
        if not in_loop:      # block symbols: backward to the start, forward to the end of this very block
            k = r.random()
            if k < 0.35:
                b.insert(r.randrange(len(b) + 1), insn(r.choice(["beq", "bcc"]), "dir", ident(["+"])))
            elif k < 0.6:
                b.append(insn("bne", "dir", ident(["-"])))
            elif k < 0.7:
                b.insert(0, insn("jmp", "dir", ident(["+"])))
        return braces(b)

    def program(self):
        r = self.r
        prog, files = [], {}
        prog.append(const("kk0", num(40)))       # shadowed inside dead branches (see construct)
        for _ in range(r.randrange(0, 3)):
            c = self.fresh("k")
            prog.append(const(c, num(r.choice([1, 2, 3, 200]))))
            self.consts.append(c)
        late_macros = []
        for _ in range(r.randrange(0, 3)):
            nm = self.fresh("m")
            k = r.randrange(0, 3)
            ps = [self.fresh("p") for _ in range(k)]
            if k >= 2 and r.random() < 0.5:
                ps[0] = "kk0"
                self.shadowing.add(nm)
            mbody = self.body(1, False, ps, True)
            (prog if r.random() < 0.7 else late_macros).append(macrodef(nm, ps, mbody))
            self.macros.append((nm, k))
        prog.append(label("dat"))
        prog.append(data(1, [num(1), num(2)]))
        if r.random() < 0.45:
            fn = "inc.asm"
            inm = self.fresh("i")
            form = r.choice(["all", "allas", "allas-params", "sel", "sel-as", "sel-params", "nested-all", "nested-allas"])
            with_params = form.endswith("params")
            nested = form.startswith("nested")
            if nested:
                # the imported file has an import of its own, under an alias: the alias is one of ITS names and travels with
                # a wildcard import like any other (`lib.x` in the outermost importer)
                form = form[len("nested-"):]
                inm2 = self.fresh("i")
                files["inc2.asm"] = [label(inm2), insn("ldy", "imm", num(r.randrange(256))), insn("rts")]
            body = [label(inm), insn("lda", "imm", ident(["ipar"]) if with_params else num(r.randrange(256))), insn("sta", "dir", ident([inm])), insn("rts")]
            if form != "all" and r.random() < 0.6:     # (`.import *` would import kk0 and dat as well: a clash with the importer's own)
                # the imported name is a block that uses other symbols of ITS file, while the importing file has symbols of
                # the same names with other values: inside the block the file's own symbols are meant
                body = [const("kk0", num(r.choice([5, 77]))), label("dat"), insn("rts"),
                        label(inm, [insn("lda", "imm", ident(["ipar"]) if with_params else ident(["kk0"])), insn("jsr", "dir", ident(["dat"])), insn("ldx", "imm", ident(["kk0"])), insn("rts")])]
            if nested:
                body = [b for b in body if not (b["k"] == "const" and b["name"] == "kk0") and not (b["k"] == "label" and b["name"] == "dat" and not b["hasBody"])]
                for b in body:
                    if b["k"] == "label" and b["hasBody"]:
                        b["body"] = [insn("lda", "imm", num(9)), insn("rts")]
                body = body + [import_("inc2.asm", "lib"), insn("jsr", "dir", ident(["lib", inm2]))]
            files[fn] = body
            params = [const("ipar", num(r.choice([3, 77])))] if with_params else None
            if form == "all":
                prog.append(import_(fn))
                ref = [inm]
            elif form.startswith("allas"):
                prog.append(import_(fn, "mod", params))
                ref = ["mod", inm]
            else:
                newname = inm if form == "sel" else self.fresh("j")
                prog.append(import_(fn, None, params, sel=[(inm, newname)]))
                ref = [newname]
            prog.append(insn("jsr", "dir", ident(ref)))
            if nested:
                prog.append(insn("jsr", "dir", ident(ref[:-1] + ["lib", inm2])))
        for _ in range(r.randrange(2, 6)):
            prog.append(self.construct(1, False, [], True))
        prog.append(label("tgt"))
        prog.append(insn("rts"))
        for lk in self.leaks:
            prog.append(data(1, [{"k": "def", "name": lk, "path": [lk]}]))
        prog += late_macros
        if self.late:
            if self.r.random() < 0.5:
                prog += [const("lateT", num(1)), const("lateF", num(0))]
            else:
                # ... through a chain of forward constants: every link costs the assembler one more pass
                prog += [const("lateT", ident(["lateT2"])), const("lateF", ident(["lateF2"])), const("lateT2", ident(["lateT3"])), const("lateF2", num(0)), const("lateT3", num(1))]
        separate_label_from_braces(prog)
        return prog, files
