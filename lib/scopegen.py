"""Programs for C15/C16: scope trees with shadowed names, dotted and super paths, untaken branches, one import.

The AST is the one spec/Scopes/Scopes.tla reads (statement records with field k):
  label  [name, oid, hasBody, body]    braces [sid, body]       const [name, oid]
  use    [path, oids]  (one oid per path segment, `super` included)   if0 [body]   import [file, sid]
  ifelse [c, then, else]   `.if c {..} else {..}` with c in {0, 1}: the branch that is not taken holds uses and macro calls only
  import [file, sid, mode, name, oid, items, block]: mode all `.import * from f`, ns `.import * as name from f`,
         sel `.import a as x, b from f` (items [name, oid, alias, aoid]); block: constants of `{ .const P = 1 }`
  expr [paths, oidss] `.word p1 + p2` (often the same path twice)   ifdef [path, oids, body] `.if defined(path) {..}`
  var [name, oid] `.var name = 1` (may be assigned again later in the same scope)   loop [path, oids, sid, body] `.loop path {..}`
  pad [n] n comment lines (used to put occurrences of two files on the same coordinates)
  a use with "interp": true is rendered inside a string: `.text "{path}"`
  macrodef [name, oid, params, poids, body]  (body: uses of the parameters)      macrocall [name, oid, args] (literal arguments)
Rendering is data: every identifier occurrence gets an oid and a position (file, line, col, len).
Nothing in here knows how names resolve; programs that do not build are discarded by the caller.
"""

NAMES = ["a", "b", "c"]
MACROS = ["m", "n"]
PARAMS = ["p", "q"]


class Gen:
    def __init__(self, rnd, two_files=False, maxdepth=3):
        self.r = rnd
        self.oid = 0
        self.sid = 0
        self.two = two_files
        self.maxdepth = maxdepth
        self.defs = []           # (scope tuple, name)
        self.consts = []         # (scope, name) of constants and variables: usable as loop counts
        self.macros = []         # macrodef statements (top level of main.asm)
        self.called = set()

    def new_oid(self):
        self.oid += 1
        return self.oid

    def body(self, scope, depth, n, allow_defs=True):
        out, used = [], set()
        for _ in range(n):
            x = self.r.random()
            free = [m for m in NAMES if m not in used]
            if allow_defs and x < 0.30 and free:
                name = self.r.choice(free)
                used.add(name)
                has_body = depth < self.maxdepth and self.r.random() < 0.6
                st = {"k": "label", "name": name, "oid": self.new_oid(), "hasBody": has_body, "body": []}
                self.defs.append((scope, name))
                if has_body:
                    st["body"] = self.body(scope + (name,), depth + 1, self.r.randrange(1, 4))
                out.append(st)
            elif allow_defs and x < 0.40 and free:
                name = self.r.choice(free)
                used.add(name)
                self.defs.append((scope, name))
                self.consts.append((scope, name))
                if self.r.random() < 0.35:
                    out.append({"k": "var", "name": name, "oid": self.new_oid()})
                    if self.r.random() < 0.6:
                        out.append({"k": "use", "path": [], "oids": [], "scope": scope})
                        out.append({"k": "var", "name": name, "oid": self.new_oid()})      # assigned again: same symbol
                else:
                    out.append({"k": "const", "name": name, "oid": self.new_oid()})
            elif allow_defs and x < 0.48 and depth < self.maxdepth and not self.two:      # (anonymous braces + .import: see checks/C16/NOTES.md)
                self.sid += 1
                sid = "$b%d" % self.sid
                out.append({"k": "braces", "sid": sid, "body": self.body(scope + (sid,), depth + 1, self.r.randrange(1, 3))})
            elif x < 0.52 and depth < self.maxdepth:
                out.append({"k": "if0", "body": self.body(scope, depth + 1, self.r.randrange(1, 3), allow_defs=False)})
            elif x < 0.60 and depth < self.maxdepth:
                c = self.r.randrange(2)          # which branch is taken; the other one is analysed only
                live = self.body(scope, depth + 1, self.r.randrange(1, 3), allow_defs=False)
                dead = self.body(scope, depth + 1, self.r.randrange(1, 3), allow_defs=False)
                out.append({"k": "ifelse", "c": c, "then": live if c else dead, "else": dead if c else live})
            elif allow_defs and scope and not self.two and x < 0.605 and any(d[0] == () for d in self.defs):
                # a `.test` block that defines a label named like an outer symbol, then a use of that name
                name = self.r.choice([d[1] for d in self.defs if d[0] == ()])
                self.sid += 1
                out.append({"k": "test", "name": "t%d" % self.sid, "body": [{"k": "label", "name": name, "oid": self.new_oid(), "hasBody": False, "body": []}]})
                out.append({"k": "use", "path": [], "oids": [], "scope": scope, "dead": True, "force": [name]})
            elif allow_defs and scope and not self.two and x < 0.61 and any(d[0] == () for d in self.defs):
                # an untaken branch that DEFINES a constant named like an outer symbol, then a use of that name: the build uses the outer one
                name = self.r.choice([d[1] for d in self.defs if d[0] == ()])
                out.append({"k": "if0", "body": [{"k": "const", "name": name, "oid": self.new_oid()}]})
                out.append({"k": "use", "path": [], "oids": [], "scope": scope, "dead": True, "force": [name]})
            elif allow_defs and scope and x < 0.615:
                out.append({"k": "blk", "oid": self.new_oid()})          # `bne -`: a use of the automatic block-start symbol
            elif x < 0.64 and depth < self.maxdepth:
                out.append({"k": "ifdef", "path": [], "oids": [], "scope": scope, "body": self.body(scope, depth + 1, self.r.randrange(1, 3), allow_defs=False)})
            elif allow_defs and x < 0.67 and depth < self.maxdepth and self.consts and not self.two:      # (never in untaken code)
                self.sid += 1
                sid = "$l%d" % self.sid
                out.append({"k": "loop", "path": [], "oids": [], "scope": scope, "want": "const", "sid": sid,
                            "body": self.body(scope + (sid,), depth + 1, self.r.randrange(1, 3), allow_defs=False)
                                    + [{"k": "use", "path": ["index"], "oids": [self.new_oid()], "interp": False}]})
            elif x < 0.72 and self.macros:
                m = self.r.choice(self.macros)
                self.called.add(m["name"])
                out.append({"k": "macrocall", "name": m["name"], "oid": self.new_oid(), "args": [self.r.choice([2, 2, 5]) for _ in m["params"]]})
            elif allow_defs and x < 0.76 and self.macros and scope and not any(d == (scope, self.macros[0]["name"]) for d in self.defs):
                name = self.macros[0]["name"]    # a constant named like a macro, inside a scope: calls there still mean the macro
                self.defs.append((scope, name))
                out.append({"k": "const", "name": name, "oid": self.new_oid()})
            else:
                out.append({"k": "use", "path": [], "oids": [], "scope": scope, "dead": not allow_defs})     # filled in later, when all definitions are known
        return out

    def fill_uses(self, prog, extra_defs):
        for st in prog:
            if st["k"] in ("ifdef", "loop"):
                scope = st.pop("scope")
                if st.pop("want", None) == "const":
                    # a constant of an enclosing scope that no nearer label shadows; without one the loop becomes a plain block
                    cands = [d for d in self.consts if d[0] == scope[:len(d[0])]
                             and not any(e[1] == d[1] and len(e[0]) > len(d[0]) and e[0] == scope[:len(e[0])] for e in self.defs if e not in self.consts)]
                    if not cands:
                        st["k"] = "braces"
                        st.pop("path"), st.pop("oids")
                        self.fill_uses(st["body"], extra_defs)
                        continue
                    st["path"] = [self.r.choice(cands)[1]]
                else:
                    st["path"] = self.some_path(scope, extra_defs)
                st["oids"] = [self.new_oid() for p in st["path"]]
                self.fill_uses(st["body"], extra_defs)
            elif st["k"] == "use" and "scope" not in st:
                continue                                   # already complete (`.word index`)
            elif st["k"] == "use":
                scope = st.pop("scope")
                dead = st.pop("dead", True)
                st["path"] = st.pop("force", None) or self.some_path(scope, extra_defs)
                st["oids"] = [self.new_oid() for p in st["path"]]          # `super` segments are occurrences too
                st["interp"] = self.r.random() < 0.2
                if not dead and len(st["path"]) == 1 and (scope, st["path"][0]) in self.consts and self.r.random() < 0.4:
                    st["k"] = "fuse"                       # `.file "{c}.bin"`: the value of the constant names a data file
                    st["interp"] = False
                    continue
                if not st["interp"] and self.r.random() < 0.2:            # two paths in one expression, mostly the same symbol twice
                    p2 = list(st["path"]) if self.r.random() < 0.7 else self.some_path(scope, extra_defs)
                    st.update(k="expr", paths=[st.pop("path"), p2], oidss=[st.pop("oids"), [self.new_oid() for _ in p2]])
                    st.pop("interp")
            elif st["k"] in ("label", "braces", "if0"):
                self.fill_uses(st["body"], extra_defs)
            elif st["k"] == "ifelse":
                self.fill_uses(st["then"], extra_defs)
                self.fill_uses(st["else"], extra_defs)

    def some_path(self, scope, extra_defs):
        cands = self.defs + extra_defs
        if not cands:
            return ["a"]
        ds, dn = self.r.choice(cands)
        full = [p for p in ds if not p.startswith("$")] + [dn] if not any(p.startswith("$") for p in ds) else [dn]
        x = self.r.random()
        if x < 0.35:
            return [dn]                                                     # plain name: innermost enclosing definition wins
        if x < 0.65:
            return full                                                     # path from the root (may be shadowed on the way out)
        k = 0
        while k < len(scope) and k < len(ds) and scope[k] == ds[k]:
            k += 1
        ups = len(scope) - k
        if ups > 0 and x < 0.9:
            rest = [p for p in ds[k:]] + [dn]
            if not any(p.startswith("$") for p in rest):
                return ["super"] * ups + rest
        tail = list(ds[-1:]) + [dn] if ds and not ds[-1].startswith("$") else [dn]
        return tail                                                         # relative path through the last named scope

    def program(self):
        inc, inc_defs = [], []
        if self.two:
            saved = self.defs
            self.defs = []
            inc = self.body((), 2, self.r.randrange(1, 4))
            inc = [s for s in inc if s["k"] in ("label", "const", "use")] or [{"k": "label", "name": "c", "oid": self.new_oid(), "hasBody": False, "body": []}]
            inc_local = list(self.defs)
            self.fill_uses(inc, [])
            inc_defs = [((), n) for (sc, n) in inc_local if sc == ()]
            self.defs = saved
        if not self.two and self.r.random() < 0.6:
            for name in MACROS[:self.r.randrange(1, 3)]:
                params = [self.r.choice(PARAMS)] if self.r.random() < 0.7 else list(PARAMS)
                m = {"k": "macrodef", "name": name, "oid": self.new_oid(), "params": params, "poids": [self.new_oid() for _ in params], "body": []}
                for _ in range(self.r.randrange(1, 3)):
                    m["body"].append({"k": "use", "path": [self.r.choice(params)], "oids": [self.new_oid()]})
                self.macros.append(m)
        main = self.body((), 1, self.r.randrange(3, 7))
        if self.macros:
            if self.r.random() < 0.4 and len(self.macros) == 2:
                # a call in an untaken branch, then a real call of the other macro: their expansions are different scopes
                a, b = self.macros if self.r.random() < 0.5 else self.macros[::-1]
                v = self.r.choice([2, 5])
                main.insert(self.r.randrange(len(main) + 1), {"k": "if0", "body": [{"k": "macrocall", "name": a["name"], "oid": self.new_oid(), "args": [v for _ in a["params"]]}]})
                main.append({"k": "macrocall", "name": b["name"], "oid": self.new_oid(), "args": [v for _ in b["params"]]})
                self.called |= {a["name"], b["name"]}
            for m in self.macros:                      # every macro is expanded at least once
                if m["name"] not in self.called:
                    main.append({"k": "macrocall", "name": m["name"], "oid": self.new_oid(), "args": [2 for _ in m["params"]]})
            main = self.macros + main
        if self.two:
            taken = {st["name"] for st in main if st["k"] in ("label", "const")}
            inc = [s for s in inc if s["k"] == "use" or s.get("name") not in taken]     # importing onto an existing symbol is an error
            inc_defs = [d for d in inc_defs if d[1] not in taken]
            self.sid += 1
            imp = {"k": "import", "file": "inc.asm", "sid": "$imp%d" % self.sid, "mode": "all", "name": "", "oid": 0, "items": [], "block": []}
            mode = self.r.choice(["all", "all", "ns", "ns2", "sel", "sel"])
            imp2 = None
            if mode == "ns2":                              # the same file imported twice, under two names
                mode = "ns"
                self.sid += 1
                imp2 = {"k": "import", "file": "inc.asm", "sid": "$imp%d" % self.sid, "mode": "ns", "name": "k", "oid": self.new_oid(), "items": [], "block": []}
            tops = [st for st in inc if st["k"] in ("label", "const")]
            if mode in ("ns", "sel"):
                # Inside a block of an imported file the real assembler continues an outward search in the IMPORTING scope (the
                # export edge is a second parent of the block, see checks/C16/NOTES.md); with `*` that finds the same symbols,
                # with aliases / a namespace it does not, and Scopes.tla does not model it: such files stay flat.
                for st in tops:
                    if st["k"] == "label":
                        st["hasBody"], st["body"] = False, []
            if mode == "ns" and tops:
                imp.update(mode="ns", name="m", oid=self.new_oid())
                inc_defs = [(("m",), st["name"]) for st in tops] + ([(("k",), st["name"]) for st in tops] if imp2 else [])
            elif mode == "sel" and tops:
                imp["mode"] = "sel"
                inc_defs = []
                for st, al in zip(tops, ["x", "y", ""]):
                    alias = al if self.r.random() < 0.6 else ""
                    imp["items"].append({"name": st["name"], "oid": self.new_oid(), "alias": alias, "aoid": self.new_oid() if alias else 0})
                    inc_defs.append(((), alias or st["name"]))
                if self.r.random() < 0.5:
                    imp["block"] = [{"k": "const", "name": "P", "oid": self.new_oid()}]
                    inc.append({"k": "use", "path": ["P"], "oids": [self.new_oid()]})
            main = [imp] + ([imp2] if imp2 and imp["mode"] == "ns" else []) + main
        self.fill_uses(main, inc_defs)
        if self.two:
            # one more use of an imported symbol at the SAME line and columns in both files
            tops = [st for st in inc if st["k"] in ("label", "const")]
            plain = [n for (sc, n) in inc_defs if sc == () and any(t["name"] == n for t in tops)]
            if plain:
                n = self.r.choice(plain)
                la, lb = len(render(main, "main.asm", {})), len(render(inc, "inc.asm", {}))
                for prog, have in ((main, la), (inc, lb)):
                    if have < max(la, lb):
                        prog.append({"k": "pad", "n": max(la, lb) - have})
                    prog.append({"k": "use", "path": [n], "oids": [self.new_oid()], "interp": False})
        return main, inc


def render(prog, fname, occ, indent=0, lines=None):
    """-> list of lines; occ: dict oid -> {f, line, col, len, name} (columns in characters)"""
    top = lines is None
    lines = [] if lines is None else lines
    pad = "  " * indent
    for st in prog:
        k = st["k"]
        if k == "label":
            occ[st["oid"]] = {"f": fname, "line": len(lines), "col": len(pad), "len": len(st["name"]), "name": st["name"], "def": True}
            if st["hasBody"]:
                lines.append(pad + st["name"] + ": {")
                render(st["body"], fname, occ, indent + 1, lines)
                lines.append(pad + "}")
            else:
                lines.append(pad + st["name"] + ": nop")
        elif k == "const":
            occ[st["oid"]] = {"f": fname, "line": len(lines), "col": len(pad) + 7, "len": len(st["name"]), "name": st["name"], "def": True}
            lines.append(pad + ".const " + st["name"] + " = %d" % (st["oid"] % 7 + 1))
        elif k == "braces":
            lines.append(pad + "{")
            render(st["body"], fname, occ, indent + 1, lines)
            lines.append(pad + "}")
        elif k == "if0":
            lines.append(pad + ".if 0 {")
            render(st["body"], fname, occ, indent + 1, lines)
            lines.append(pad + "}")
        elif k == "ifelse":
            lines.append(pad + ".if %d {" % st["c"])
            render(st["then"], fname, occ, indent + 1, lines)
            lines.append(pad + "} else {")
            render(st["else"], fname, occ, indent + 1, lines)
            lines.append(pad + "}")
        elif k == "macrodef":
            occ[st["oid"]] = {"f": fname, "line": len(lines), "col": len(pad) + 7, "len": len(st["name"]), "name": st["name"], "def": True}
            col = len(pad) + 7 + len(st["name"]) + 1
            for pn, po in zip(st["params"], st["poids"]):
                occ[po] = {"f": fname, "line": len(lines), "col": col, "len": len(pn), "name": pn, "def": True}
                col += len(pn) + 2
            lines.append(pad + ".macro " + st["name"] + "(" + ", ".join(st["params"]) + ") {")
            render(st["body"], fname, occ, indent + 1, lines)
            lines.append(pad + "}")
        elif k == "macrocall":
            occ[st["oid"]] = {"f": fname, "line": len(lines), "col": len(pad), "len": len(st["name"]), "name": st["name"], "def": False}
            lines.append(pad + st["name"] + "(" + ", ".join(str(a) for a in st["args"]) + ")")
        elif k == "test":
            lines.append(pad + '.test "%s" {' % st["name"])
            render(st["body"], fname, occ, indent + 1, lines)
            lines.append(pad + "  brk")
            lines.append(pad + "}")
        elif k == "blk":
            occ[st["oid"]] = {"f": fname, "line": len(lines), "col": len(pad) + 4, "len": 1, "name": "-", "def": False}
            lines.append(pad + "bne -")
        elif k == "pad":
            lines.extend(["// pad"] * st["n"])
        elif k == "var":
            occ[st["oid"]] = {"f": fname, "line": len(lines), "col": len(pad) + 5, "len": len(st["name"]), "name": st["name"], "def": True}
            lines.append(pad + ".var " + st["name"] + " = %d" % (st["oid"] % 7 + 1))
        elif k in ("ifdef", "loop"):
            head = ".if defined(" if k == "ifdef" else ".loop "
            col = len(pad) + len(head)
            for seg, oid in zip(st["path"], st["oids"]):
                occ[oid] = {"f": fname, "line": len(lines), "col": col, "len": len(seg), "name": seg, "def": False}
                col += len(seg) + 1
            lines.append(pad + head + ".".join(st["path"]) + (") {" if k == "ifdef" else " {"))
            render(st["body"], fname, occ, indent + 1, lines)
            lines.append(pad + "}")
        elif k == "expr":
            col = len(pad) + 6
            strs = []
            for path, oids in zip(st["paths"], st["oidss"]):
                for seg, oid in zip(path, oids):
                    occ[oid] = {"f": fname, "line": len(lines), "col": col, "len": len(seg), "name": seg, "def": False}
                    col += len(seg) + 1
                col += 2                                  # " + " minus the separator already counted
                strs.append(".".join(path))
            lines.append(pad + ".word " + " + ".join(strs) + "  // " + strs[0])
        elif k == "fuse":
            occ[st["oids"][0]] = {"f": fname, "line": len(lines), "col": len(pad) + 8, "len": len(st["path"][0]), "name": st["path"][0], "def": False}
            lines.append(pad + '.file "{' + st["path"][0] + '}.bin"')
        elif k == "use":
            col = len(pad) + (8 if st.get("interp") else 6)
            for seg, oid in zip(st["path"], st["oids"]):
                if oid:
                    occ[oid] = {"f": fname, "line": len(lines), "col": col, "len": len(seg), "name": seg, "def": False}
                col += len(seg) + 1
            path = ".".join(st["path"])
            if st.get("interp"):
                lines.append(pad + '.text "{' + path + '}"  // ' + path)
            else:
                lines.append(pad + ".word " + path + "  // " + path + ' "' + st["path"][-1] + '"')
        elif k == "import":
            mode = st.get("mode", "all")
            if mode == "ns":
                occ[st["oid"]] = {"f": fname, "line": len(lines), "col": len(pad) + 13, "len": len(st["name"]), "name": st["name"], "def": False}
                text = pad + ".import * as " + st["name"]
            elif mode == "sel":
                text = pad + ".import "
                for j, it in enumerate(st["items"]):
                    if j:
                        text += ", "
                    occ[it["oid"]] = {"f": fname, "line": len(lines), "col": len(text), "len": len(it["name"]), "name": it["name"], "def": False}
                    c0 = len(text)
                    text += it["name"]
                    if it["alias"]:
                        text += " as "
                        occ[it["aoid"]] = {"f": fname, "line": len(lines), "col": len(text), "len": len(it["alias"]), "name": it["alias"], "def": False}
                        text += it["alias"]
                        # the server treats the whole argument `a as x` as ONE occurrence (a location with this range stands for both tokens)
                        occ[it["oid"]]["arg"] = occ[it["aoid"]]["arg"] = [c0, len(text)]
            else:
                text = pad + ".import *"
            text += ' from "%s"' % st["file"]
            if st.get("block"):
                lines.append(text + " {")
                render(st["block"], fname, occ, indent + 1, lines)
                lines.append(pad + "}")
            else:
                lines.append(text)
    return lines


def tla_ready(prog):
    """uniform field sets per kind (TLC reads these records)"""
    out = []
    for st in prog:
        s = dict(st)
        s.pop("interp", None)
        if s["k"] == "import":
            for f_, d_ in (("mode", "all"), ("name", ""), ("oid", 0), ("items", []), ("block", [])):
                s.setdefault(f_, d_)
            s["block"] = tla_ready(s["block"])
        for b in ("body", "then", "else"):
            if b in s:
                s[b] = tla_ready(s[b])
        out.append(s)
    return out
