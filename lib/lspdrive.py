"""JSON-RPC-over-stdio driver for `mos lsp` (used by checks C14-C17).

Only drives and records.  Nothing in here decides a property: observations are reshaped into records that the
TLA+ judges (spec/Lsp/LspTrace.tla, spec/Scopes/NavTrace.tla, spec/Scopes/RenameTrace.tla, spec/Edits/EditsTrace.tla)
accept or reject.
"""
import json
import os
import queue
import re
import socket
import subprocess
import threading
import time


def uri_of(path):
    return path if path.startswith("untitled:") else "file://" + path


def path_of(uri):
    return uri[len("file://"):] if uri.startswith("file://") else uri


def free_port():
    s = socket.socket()
    s.bind(("127.0.0.1", 0))
    p = s.getsockname()[1]
    s.close()
    return p


class Server:
    """One `mos lsp` process.  Single-threaded server: replies arrive in request order and every publishDiagnostics
    caused by a notification is written before the reply to any later request, so a reply is also a barrier."""

    def __init__(self, mos_bin, root, timeout=20.0):
        self.root = root
        self.timeout = timeout
        self.port = free_port()
        self.proc = subprocess.Popen([mos_bin, "--no-color", "lsp", "-p", str(self.port)], cwd=root, stdin=subprocess.PIPE,
                                     stdout=subprocess.PIPE, stderr=subprocess.PIPE, env=dict(os.environ, RUST_BACKTRACE="0"))
        self.q = queue.Queue()
        self.next_id = 0
        self.published = {}        # path -> list of diagnostics (last published)
        self.pub_log = []          # (seq, path, diags) in arrival order
        self.seq = 0
        self.stderr_buf = []
        self.dead = None           # exit status once observed
        threading.Thread(target=self._reader, daemon=True).start()
        threading.Thread(target=self._stderr, daemon=True).start()

    # ------------------------------------------------------------ plumbing
    def _reader(self):
        f = self.proc.stdout
        try:
            while True:
                n = None
                while True:
                    line = f.readline()
                    if not line:
                        self.q.put(None)
                        return
                    line = line.strip()
                    if not line:
                        break
                    if line.lower().startswith(b"content-length:"):
                        n = int(line.split(b":")[1])
                body = f.read(n)
                if body is None or len(body) < n:
                    self.q.put(None)
                    return
                self.q.put(json.loads(body.decode("utf-8")))
        except Exception:
            self.q.put(None)

    def _stderr(self):
        try:
            for line in self.proc.stderr:
                if len(self.stderr_buf) < 400:
                    self.stderr_buf.append(line.decode("utf-8", "replace"))
        except (ValueError, OSError):          # the pipe was closed under us (kill): nothing more to read
            pass

    def _send(self, obj):
        data = json.dumps(obj, ensure_ascii=False).encode("utf-8")
        try:
            self.proc.stdin.write(b"Content-Length: %d\r\n\r\n" % len(data) + data)
            self.proc.stdin.flush()
            return True
        except (BrokenPipeError, OSError, ValueError):
            return False

    def panic_site(self):
        """'file:line' of the panic message on stderr ('' when none), for witnesses of known findings."""
        txt = "".join(self.stderr_buf)
        m = re.search(r"panicked at (?:'[^\n]*', )?([\w\-./]+\.rs):(\d+)", txt)
        return "%s:%s" % (m.group(1), m.group(2)) if m else ""

    def panic_msg(self):
        txt = "".join(self.stderr_buf)
        m = re.search(r"panicked at[^\n]*\n?[^\n]*", txt)
        return m.group(0)[:300] if m else ""

    # ------------------------------------------------------------ protocol
    def notify(self, method, params):
        self.seq += 1
        return self._send({"jsonrpc": "2.0", "method": method, "params": params})

    def request(self, method, params, timeout=None):
        """-> dict(status in ok|error|dead|timeout, result, exit, panic)"""
        self.next_id += 1
        rid = self.next_id
        self.seq += 1
        if self.dead is not None or not self._send({"jsonrpc": "2.0", "id": rid, "method": method, "params": params}):
            return self._dead()
        deadline = time.time() + (timeout or self.timeout)
        while True:
            left = deadline - time.time()
            if left <= 0:
                if self.proc.poll() is not None:
                    return self._dead()
                return {"status": "timeout", "result": None, "exit": None, "panic": ""}
            try:
                m = self.q.get(timeout=min(left, 0.5))
            except queue.Empty:
                if self.proc.poll() is not None and self.q.empty():
                    return self._dead()
                continue
            if m is None:
                return self._dead()
            if "id" in m and "method" not in m:
                if m["id"] == rid:
                    if "error" in m and m["error"] is not None:
                        return {"status": "error", "result": m["error"], "exit": None, "panic": ""}
                    return {"status": "ok", "result": m.get("result"), "exit": None, "panic": ""}
                continue
            if m.get("method") == "textDocument/publishDiagnostics":
                p = path_of(m["params"]["uri"])
                self.published[p] = m["params"]["diagnostics"]
                self.pub_log.append((self.seq, p, m["params"]["diagnostics"]))

    def _dead(self):
        try:
            rc = self.proc.wait(timeout=10)
        except subprocess.TimeoutExpired:
            rc = None
        time.sleep(0.05)
        self.dead = rc if rc is not None else -999
        return {"status": "dead", "result": None, "exit": self.dead, "panic": self.panic_site()}

    def initialize(self):
        r = self.request("initialize", {"processId": None, "rootUri": uri_of(self.root), "capabilities": {}})
        if r["status"] == "ok":
            self.notify("initialized", {})
        return r

    def did_open(self, path, text, version=1):
        return self.notify("textDocument/didOpen", {"textDocument": {"uri": uri_of(path), "languageId": "asm", "version": version, "text": text}})

    def did_change(self, path, text, version=2):
        return self.notify("textDocument/didChange", {"textDocument": {"uri": uri_of(path), "version": version}, "contentChanges": [{"text": text}]})

    def did_change_multi(self, path, texts, version=2):
        """didChange with any number of (full text) entries; the last one is the client's buffer"""
        return self.notify("textDocument/didChange", {"textDocument": {"uri": uri_of(path), "version": version}, "contentChanges": [{"text": t} for t in texts]})

    def did_close(self, path):
        return self.notify("textDocument/didClose", {"textDocument": {"uri": uri_of(path)}})

    def alive(self):
        return self.dead is None and self.proc.poll() is None

    def kill(self):
        try:
            self.proc.kill()
            self.proc.wait(timeout=5)
        except Exception:
            pass
        try:
            self.proc.stdin.close()            # (stdout/stderr are left to their reader threads, which end at EOF)
        except Exception:
            pass


# ---------------------------------------------------------------- requests by kind

POS_KINDS = {"definition": "textDocument/definition", "references": "textDocument/references", "highlight": "textDocument/documentHighlight",
             "prepareRename": "textDocument/prepareRename", "rename": "textDocument/rename", "completion": "textDocument/completion",
             "hover": "textDocument/hover", "onType": "textDocument/onTypeFormatting"}
DOC_KINDS = {"semanticTokens": "textDocument/semanticTokens/full", "formatting": "textDocument/formatting", "documentSymbol": "textDocument/documentSymbol",
             "codeLens": "textDocument/codeLens"}
ALL_KINDS = sorted(POS_KINDS) + sorted(DOC_KINDS) + ["workspaceSymbol"]     # the 13 request types the server registers


def params_for(kind, path, line=0, ch=0, new_name="zz9", include_decl=True, query=""):
    td = {"uri": uri_of(path)}
    pos = {"line": line, "character": ch}
    if kind == "workspaceSymbol":
        return "workspace/symbol", {"query": query}
    if kind in DOC_KINDS:
        p = {"textDocument": td}
        if kind == "formatting":
            p["options"] = {"tabSize": 4, "insertSpaces": True}
        return DOC_KINDS[kind], p
    p = {"textDocument": td, "position": pos}
    if kind == "references":
        p["context"] = {"includeDeclaration": include_decl}
    if kind == "rename":
        p["newName"] = new_name
    if kind == "onType":
        p["ch"] = "}"
        p["options"] = {"tabSize": 4, "insertSpaces": True}
    return POS_KINDS[kind], p


# ---------------------------------------------------------------- reshaping helpers (data, not verdicts)

def line_table(text):
    """Per line of text (split at \\n, terminators excluded, a trailing \\r excluded like the server's source_line):
    chars = number of characters, u16 = UTF-16 code units, bytes = UTF-8 bytes."""
    out = []
    for ln in text.split("\n"):
        ln = ln.rstrip("\r")
        out.append({"chars": len(ln), "u16": len(ln.encode("utf-16-le")) // 2, "bytes": len(ln.encode("utf-8"))})
    return out


def rng4(r):
    return [r["start"]["line"], r["start"]["character"], r["end"]["line"], r["end"]["character"]]


def norm_diags(ds):
    return sorted([rng4(d["range"]) + [d.get("message", "")] for d in (ds or [])])


def rel(root, p):
    p = path_of(p)
    return os.path.relpath(p, root) if p.startswith(root) else p


def collect_ranges(kind, result, root, req_file):
    """All (file, [sl, sc, el, ec]) positional results of a reply, for the well-formedness judge."""
    out = []
    if result is None:
        return out
    if kind == "definition":
        for l in (result if isinstance(result, list) else [result]):
            if "targetUri" in l:
                out.append((rel(root, l["targetUri"]), rng4(l["targetRange"])))
                out.append((rel(root, l["targetUri"]), rng4(l["targetSelectionRange"])))
                if l.get("originSelectionRange"):
                    out.append((req_file, rng4(l["originSelectionRange"])))
            else:
                out.append((rel(root, l["uri"]), rng4(l["range"])))
    elif kind == "references":
        out += [(rel(root, l["uri"]), rng4(l["range"])) for l in result]
    elif kind in ("highlight", "formatting", "onType", "codeLens"):
        out += [(req_file, rng4(l["range"])) for l in result]
    elif kind == "prepareRename":
        r = result.get("range", result) if isinstance(result, dict) else None
        if r and "start" in r:
            out.append((req_file, rng4(r)))
    elif kind == "rename":
        for u, eds in (result.get("changes") or {}).items():
            out += [(rel(root, u), rng4(e["range"])) for e in eds]
    elif kind == "documentSymbol":
        def walk(ds):
            for d in ds:
                if "range" in d:
                    out.append((req_file, rng4(d["range"])))
                    out.append((req_file, rng4(d["selectionRange"])))
                    walk(d.get("children") or [])
                elif "location" in d:
                    out.append((rel(root, d["location"]["uri"]), rng4(d["location"]["range"])))
        walk(result)
    elif kind == "workspaceSymbol":
        out += [(rel(root, d["location"]["uri"]), rng4(d["location"]["range"])) for d in result]
    return out


def decode_semtokens(result):
    """delta-encoded data -> absolute [line, start, length] triples in the order sent (no sorting, no filtering)."""
    if not result:
        return None
    data = result.get("data") or []
    if data and isinstance(data[0], dict):
        flat = []
        for t in data:
            flat += [t["deltaLine"], t["deltaStart"], t["length"], t["tokenType"], t["tokenModifiersBitset"]]
        data = flat
    toks, line, col = [], 0, 0
    for i in range(0, len(data) - 4, 5):
        dl, ds, ln = data[i], data[i + 1], data[i + 2]
        if dl:
            line += dl
            col = ds
        else:
            col += ds
        toks.append([line, col, ln])
    return toks


def canon(x, root):
    """Order-insensitive canonical form of a reply (sets are sets in LSP: locations, completion items, edits per file)."""
    def c(v):
        if isinstance(v, dict):
            return {k: c(w) for k, w in sorted(v.items())}
        if isinstance(v, list):
            return sorted((c(w) for w in v), key=lambda z: json.dumps(z, sort_keys=True))
        if isinstance(v, str) and v.startswith("file://"):
            return rel(root, v)
        return v
    if isinstance(x, dict) and "changes" in x and isinstance(x["changes"], dict):
        x = dict(x, changes={rel(root, k): v for k, v in x["changes"].items()})
    return json.dumps(c(x), sort_keys=True, ensure_ascii=False)


def add_local_findings(rep, check_dir):
    """Which findings of this property are open: the merged file (/verif/known_findings.jsonl, or the file named by
    VERIF_FINDINGS for trial runs) wins, rows of checks/<ID>/findings.jsonl that it does not have yet are added.
    Sets rep.open (deviation -> row) and returns the set of open deviation names: the checks switch the as-coded
    reading of the specification on for exactly these."""
    verif = os.path.dirname(os.path.dirname(os.path.abspath(__file__)))
    rows, have = [], set()
    for path in (os.environ.get("VERIF_FINDINGS") or os.path.join(verif, "known_findings.jsonl"), os.path.join(check_dir, "findings.jsonl")):
        if os.path.exists(path):
            for line in open(path):
                line = line.strip()
                if line and not line.startswith("#"):
                    f = json.loads(line)
                    if f.get("property") == rep.prop and (f["property"], f["deviation"]) not in have:
                        rows.append(f)
        have |= {(f["property"], f["deviation"]) for f in rows}
    rep.open = {f["deviation"]: f for f in rows if f.get("status") == "open"}
    rep.notes.append("open findings (as-coded reading on): %s; repaired (ideal reading demanded): %s" % (
        sorted(rep.open), sorted(f["deviation"] for f in rows if f.get("status") != "open")))
    return set(rep.open)


def tla_set(names):
    return "{" + ", ".join('"%s"' % n for n in sorted(names)) + "}"
