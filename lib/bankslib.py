"""C09 drivers: bank/segment configurations -> source text + mos.toml, in-process and `mos build` runs, observations.

Nothing in here decides the property: configurations are data handed to TLC together with what the code produced
(spec/Banks/BanksTrace.tla is the judge).  The configuration shape is documented in spec/Banks/Banks.tla.
"""
import os
import re
import shutil
import subprocess
import time
from concurrent.futures import ThreadPoolExecutor

import vplib as V

OFF = {"on": False, "v": 0}
OFFS = {"on": False, "s": ""}
NAMES = {"prg": "main.prg", "bin": "main.bin"}


def on(v):
    return {"on": True, "v": v}


def ons(s):
    return {"on": True, "s": s}


def lit(v):
    return {"k": "lit", "v": v, "of": ""}


def build_harness(bins):
    """vplib.build_harness, with the manifest of the harness copy (VERIF_REPO set) rewritten after reading it."""
    if V.HARNESS == V.HARNESS_SRC:
        return V.build_harness(bins)
    with V._Lock("cargo-harness"):
        os.makedirs(V.HARNESS, exist_ok=True)
        subprocess.run(["rsync", "-a", "--delete", "--exclude", "target", V.HARNESS_SRC + "/", V.HARNESS + "/"], check=True)
        ct = os.path.join(V.HARNESS, "Cargo.toml")
        text = open(os.path.join(V.HARNESS_SRC, "Cargo.toml")).read().replace("/repo/mos-core", os.path.join(V.REPO, "mos-core"))
        with open(ct, "w") as f:
            f.write(text)
        cmd = ["cargo", "build", "--offline", "-q"]
        for b in bins:
            cmd += ["--bin", b]
        t = time.time()
        p = subprocess.run(cmd, cwd=V.HARNESS, env=V._cargo_env(), capture_output=True, text=True)
        if p.returncode != 0:
            raise V.ToolError("harness build failed:\n" + p.stdout[-3000:] + p.stderr[-6000:])
        V.log("[build] harness copy ok (%.1fs)" % (time.time() - t))
    return os.path.join(V.HARNESS, "target", "debug")


# ------------------------------------------------------------------ configurations

def seg_bytes(i, n):
    return [(16 * i + k) % 256 for k in range(1, n + 1)]


def shift(cfg, d):
    """The same layout moved by d addresses (literal starts only; dependent starts follow)."""
    c = dict(cfg)
    c["segs"] = [dict(s, start=dict(s["start"], v=s["start"]["v"] + d) if s["start"]["k"] == "lit" else s["start"]) for s in cfg["segs"]]
    return c


def decorate(cfg, rnd):
    """Options the layout must not depend on: `pc` of a segment (assembly address, not placement)."""
    c = dict(cfg)
    c["segs"] = [dict(s, pc=on(rnd.choice([0x8000, 0x0400, 0xC000, 0x1000]) + rnd.randrange(64)) if (s["origin"] == "user" and rnd.random() < 0.35) else s["pc"])
                 for s in cfg["segs"]]
    return c


def natural_len(segs_of_bank):
    """Span of literal-start writable segments (used only to CHOOSE interesting bank sizes, never to judge)."""
    spans = [(s["start"]["v"], s["start"]["v"] + len(s["bytes"])) for s in segs_of_bank if s["write"] and s["bytes"] and s["start"]["k"] == "lit"]
    if not spans:
        return 0
    return max(h for _, h in spans) - min(l for l, _ in spans)


def random_cfg(rnd, faults):
    """1-4 banks (or none: default bank) x 1-6 segments on a line of ~24 addresses at a random base."""
    r = rnd.random()
    base = 65536 - rnd.randrange(4, 30) if (faults and r < 0.12) else rnd.randrange(0, 4) if r < 0.2 else rnd.randrange(0, 65000)
    nb = rnd.choice([0, 1, 1, 1, 2, 2, 3, 4])
    fmt = rnd.choice(["unset", "unset", "bin", "prg"]) if nb != 1 else rnd.choice(["unset", "prg", "prg", "bin"])
    if fmt == "prg" and nb > 1 and not faults:
        fmt = "bin"
    out = ons(rnd.choice(["game.out", "a.prg", "main.bin"])) if rnd.random() < 0.3 else OFFS
    bnames = ["b%d" % j for j in range(1, nb + 1)]
    banks = []
    for j, n in enumerate(bnames):
        fk = rnd.random()
        fname = OFFS if fk < 0.55 else ons("f%d.bin" % (j + 1)) if fk < 0.75 else ons("s.bin") if fk < 0.93 else ons(rnd.choice(["main.bin", "main.prg"]))
        fill = rnd.choice([OFF, OFF, on(0), on(0xAA), on(rnd.randrange(256))])
        banks.append({"name": n, "size": OFF, "fill": fill, "fname": fname, "create": rnd.random() < 0.2})
    if nb == 0 and rnd.random() < 0.08 or nb in (1, 2) and rnd.random() < 0.04:
        # no segment definitions at all: the assembler's own default segment
        for b in banks:
            b["create"] = False
        segs = [{"name": "default", "start": lit(base), "pc": OFF, "write": True, "bank": OFFS, "origin": "default", "bytes": seg_bytes(1, rnd.randrange(1, 5))}]
        return {"banks": banks, "segs": segs, "fmt": fmt, "out": out, "names": NAMES}
    ns = rnd.choice([1, 2, 2, 3, 3, 4, 4, 5, 6])
    users = []
    for i in range(1, ns + 1):
        if bnames:
            ref = ons(rnd.choice(bnames))
            if faults and rnd.random() < 0.12:
                ref = rnd.choice([OFFS, ons("zz")])
        else:
            ref = rnd.choice([OFFS, OFFS, OFFS, ons("default")])
            if faults and rnd.random() < 0.1:
                ref = ons("zz")
        users.append({"name": "s%d" % i, "start": lit(base + rnd.randrange(0, 21)), "pc": OFF, "write": rnd.random() >= 0.15, "bank": ref,
                      "origin": "user", "bytes": seg_bytes(i, rnd.randrange(1, 6))})
    # some segments stay without bytes (defined, never written to): they write no address
    for u in users:
        if rnd.random() < 0.07:
            u["bytes"] = []
    # start dependencies: along a random ranking, so that they are acyclic; forward references (later-defined target) included
    rank = list(range(ns))
    rnd.shuffle(rank)
    for pos in range(1, ns):
        if rnd.random() < 0.25:
            tgt = users[rank[rnd.randrange(0, pos)]]
            users[rank[pos]]["start"] = {"k": rnd.choice(["end", "end", "start"]), "v": rnd.choice([0, 0, 1, 2, 3]), "of": tgt["name"]}
    # segments created by banks, at a random position each (banks keep their order)
    segs = list(users)
    pos = 0
    for j, b in enumerate(banks):
        if b["create"]:
            pos = rnd.randrange(pos, len(segs) + 1)
            segs.insert(pos, {"name": b["name"], "start": lit(base + rnd.randrange(0, 21)), "pc": OFF, "write": True, "bank": ons(b["name"]),
                              "origin": "bank", "bytes": seg_bytes(7 + j, rnd.randrange(1, 4))})
            if rnd.random() < 0.25:
                segs[pos].update(start=lit(0x2000), bytes=[])   # created but never used: it sits at the default start $2000
            pos += 1
    # sizes relative to what the bank will hold: none, exact, larger, smaller
    for b in banks:
        k = rnd.random()
        if k < 0.5:
            continue
        n = natural_len([s for s in segs if s["bank"] == ons(b["name"])])
        if k < 0.65:
            b["size"] = on(n)
        elif k < 0.9 or not faults:
            b["size"] = on(n + rnd.randrange(1, 6))
            if not faults and not b["fill"]["on"]:
                b["fill"] = on(rnd.choice([0, 0xAA, 0xFF]))
        else:
            b["size"] = on(max(0, n - rnd.randrange(1, 3)))
        if faults and rnd.random() < 0.06:
            b["size"] = on(rnd.choice([-1, 0, 65536, 65537, -70000, 1 << 20]))   # on both sides of the accepted range 0..65536
        if faults and rnd.random() < 0.02:
            b["fill"] = on(rnd.choice([-1, 256, 0x1aa]))                           # not a byte: outside the property (recorded only)
    return {"banks": banks, "segs": segs, "fmt": fmt, "out": out, "names": NAMES}


def edge_cfgs(rnd):
    """Hand-picked corners of the `size` rule (accepted range 0..65536) and of the address space: a bank of exactly 65536 bytes."""
    def bank(size, fill, **kw):
        return dict({"name": "b1", "size": size, "fill": fill, "fname": OFFS, "create": False}, **kw)

    def seg(i, start, n, write=True):
        return {"name": "s%d" % i, "start": lit(start), "pc": OFF, "write": write, "bank": ons("b1"), "origin": "user", "bytes": seg_bytes(i, n)}
    f = rnd.choice([0x55, 0xAA, 0xFF])
    base = rnd.randrange(0x200, 0xF000)
    full = [seg(1, 0, 2), seg(2, 65534, 2)]            # spans $0000-$FFFF: 65536 bytes
    almost = [seg(1, 1, 2), seg(2, 65533, 2)]          # 65534 bytes
    small = [seg(1, base, 3), seg(2, base + 5, 2)]
    rows = [(on(65536), OFF, full), (on(65536), on(f), almost), (on(65536), OFF, almost), (on(65535), on(f), full), (on(65537), on(f), full),
            (on(65537), OFF, small), (on(65537), on(f), small), (on(65536), on(f), small),
            (on(-1), OFF, small), (on(-1), on(f), small), (on(-1), on(f), [seg(1, base, 2, write=False), seg(2, base + 4, 1, write=False)]),
            (on(0), OFF, small), (on(0), on(f), [seg(1, base, 2, write=False), seg(2, base + 4, 1, write=False)]),
            (on(0), OFF, [seg(1, base, 2, write=False), seg(2, base + 4, 1, write=False)]),
            (OFF, on(256), small), (OFF, on(-1), small), (on(8), on(0x1aa), small)]
    out = []
    for size, fill, segs in rows:
        for fmt in ("unset", "bin"):
            out.append({"banks": [bank(size, fill)], "segs": [dict(x) for x in segs], "fmt": fmt, "out": OFFS, "names": NAMES})
    # the same rule on a bank that creates its segment, and on the second of two banks
    out.append({"banks": [bank(on(65537), on(f), create=True)], "segs": [dict(seg(1, base, 2), name="b1", origin="bank")], "fmt": "unset", "out": OFFS, "names": NAMES})
    out.append({"banks": [bank(OFF, OFF), dict(bank(on(-1), OFF), name="b2")], "segs": [seg(1, base, 2), dict(seg(2, base + 3, 2), bank=ons("b2"))],
                "fmt": "bin", "out": OFFS, "names": NAMES})
    return out


# ------------------------------------------------------------------ rendering

def _num(v, rnd):
    return ("$%04x" % v) if rnd.random() < 0.7 else str(v)


def _bank_def(b, rnd):
    parts = ['name = "%s"' % b["name"]]
    opt = []
    if b["size"]["on"]:
        opt.append("size = %s" % (_num(b["size"]["v"], rnd) if (rnd.random() < 0.3 and b["size"]["v"] >= 0) else str(b["size"]["v"])))
    if b["fill"]["on"]:
        opt.append(("fill = $%02x" % b["fill"]["v"]) if 0 <= b["fill"]["v"] < 256 else "fill = %d" % b["fill"]["v"])
    if b["fname"]["on"]:
        opt.append('filename = "%s"' % b["fname"]["s"])
    if b["create"]:
        opt.append("create-segment = %s" % rnd.choice(["true", "1"]))
    rnd.shuffle(opt)
    return ".define bank { %s }" % " ".join(parts + opt)


def _seg_def(s, rnd):
    st = s["start"]
    if st["k"] == "lit":
        e = _num(st["v"], rnd)
    else:
        e = "segments.%s.%s" % (st["of"], st["k"])
        if st["v"]:
            e += " + %d" % st["v"]
    opt = ["start = %s" % e]
    if s["pc"]["on"]:
        opt.append("pc = $%04x" % s["pc"]["v"])
    if not s["write"]:
        opt.append("write = false")
    elif rnd.random() < 0.2:
        opt.append("write = true")
    if s["bank"]["on"]:
        opt.append('bank = "%s"' % s["bank"]["s"])
    rnd.shuffle(opt)
    return '.define segment { name = "%s" %s }' % (s["name"], " ".join(opt))


def _bytes(bs):
    return ".byte " + ", ".join("$%02x" % b for b in bs)


def render(cfg, rnd):
    """(main.asm, mos.toml).  Definitions keep bank order and segment registration order; the bodies come in any order."""
    lines = []
    banks = cfg["banks"]
    emitted = 0

    def emit_banks(upto):
        nonlocal emitted
        while emitted < upto:
            lines.append(_bank_def(banks[emitted], rnd))
            emitted += 1

    bidx = {b["name"]: j for j, b in enumerate(banks)}
    for s in cfg["segs"]:
        # a bank that creates no segment may be defined anywhere before the next creating bank
        while emitted < len(banks) and not banks[emitted]["create"] and rnd.random() < 0.5:
            emit_banks(emitted + 1)
        if s["origin"] == "bank":
            emit_banks(bidx[s["name"]] + 1)
        elif s["origin"] == "user":
            lines.append(_seg_def(s, rnd))
    emit_banks(len(banks))
    blocks = []
    bad_size = {b["name"] for b in banks if b["size"]["on"] and not 0 <= b["size"]["v"] <= 65536}
    for s in cfg["segs"]:
        bs = s["bytes"]
        if not bs:
            # a segment without bytes: no block at all, or a block that emits nothing (only where its definition cannot be refused)
            defined = (s["origin"] == "user" and s["start"]["k"] == "lit" and 0 <= s["start"]["v"] <= 65535 and not (s["pc"]["on"] and not 0 <= s["pc"]["v"] <= 65535)) \
                or (s["origin"] == "bank" and s["name"] not in bad_size)
            if defined and s["origin"] != "default" and rnd.random() < 0.5:
                # (`* =' names the address the code runs at: for a relocated segment the storage position plus the relocation distance)
                sp = rnd.randrange(0x100, 0xff00)
                tp = sp + ((s["pc"]["v"] - s["start"]["v"]) if s["pc"]["on"] else 0)
                blocks.append(('.segment "%s" { %s}' % (s["name"], rnd.choice(["", "* = $%04x " % tp if 0 <= tp <= 0xffff else ""])), s["name"]))
            continue
        if s["origin"] == "default":
            blocks.append("* = $%04x\n%s" % (s["start"]["v"], _bytes(bs)))
            continue
        pre = "* = $%04x\n  " % s["start"]["v"] if s["origin"] == "bank" else ""
        if len(bs) >= 2 and rnd.random() < 0.3:
            cut = rnd.randrange(1, len(bs))
            blocks.append(('.segment "%s" { %s%s }' % (s["name"], pre, _bytes(bs[:cut])), s["name"]))
            blocks.append(('.segment "%s" { %s }' % (s["name"], _bytes(bs[cut:])), s["name"]))
        else:
            blocks.append(('.segment "%s" { %s%s }' % (s["name"], pre, _bytes(bs)), s["name"]))
    if blocks and isinstance(blocks[0], tuple):
        # shuffle, keeping the two halves of one segment in order
        order = list(range(len(blocks)))
        rnd.shuffle(order)
        firsts = {}
        arranged = [None] * len(blocks)
        slots = {}
        for slot, bi in enumerate(order):
            slots.setdefault(blocks[bi][1], []).append(slot)
        for bi, (text, name) in enumerate(blocks):
            k = firsts.get(name, 0)
            arranged[sorted(slots[name])[k]] = text
            firsts[name] = k + 1
        blocks = arranged
    src = "\n".join(lines + blocks) + "\n"
    toml = '[build]\nentry = "main.asm"\n'
    if cfg["fmt"] != "unset":
        toml += 'output-format = "%s"\n' % cfg["fmt"]
    if cfg["out"]["on"]:
        toml += 'output-filename = "%s"\n' % cfg["out"]["s"]
    return src, toml


# ------------------------------------------------------------------ observations

ERR_CLASSES = [("range", r"is out of range|must be between \$0000 and \$FFFF"), ("unknownbank", r"but this bank does not exist"), ("nobank", r"is not assigned to any bank"),
               ("oversize", r"exceeds maximum size"), ("sizerange", r"'size' must be between 0 and 65536"),
               ("undefseg", r'unknown identifier: "'), ("short", r"No fill value was specified"), ("prgmulti", r"must contain a single bank only")]


def classify(msgs):
    out = set()
    for m in msgs:
        for k, rx in ERR_CLASSES:
            if re.search(rx, m):
                out.add(k)
                break
        else:
            out.add("other")
    return sorted(out)


def lib_record(cid, cfg, o):
    """In-process observation (bankdrive) -> judge record.  write_banks was called with 'out.bin', no prg header exists there."""
    msgs = [d["msg"] for d in (o.get("parse_diags") or []) + (o.get("diags") or [])]
    if o.get("panic"):
        msgs.append("panic: " + o["panic"])
    return {"id": cid, "mode": "lib", "cfg": dict(cfg, fmt="bin", out=ons("out.bin")), "ok": bool(o["ok"]),
            "files": [{"name": f["name"], "data": f["bytes"]} for f in o.get("files") or []],
            "hasBanks": bool(o["ok"]), "banks": [{"name": b["name"], "lo": b["start"], "hi": b["end"], "data": b["bytes"]} for b in (o.get("banks") or [])] if o["ok"] else [],
            "errk": classify(msgs), "ndiags": len(msgs)}


def run_mos(mos, cfg, src, toml, d):
    shutil.rmtree(d, ignore_errors=True)
    os.makedirs(d)
    with open(os.path.join(d, "main.asm"), "w") as f:
        f.write(src)
    with open(os.path.join(d, "mos.toml"), "w") as f:
        f.write(toml)
    try:
        p = subprocess.run([mos, "--no-color", "-e", "Short", "build"], cwd=d, capture_output=True, text=True, timeout=60)
        rc, so, se = p.returncode, p.stdout, p.stderr
    except subprocess.TimeoutExpired:
        rc, so, se = -999, "", "timeout"
    files = []
    t = os.path.join(d, "target")
    if os.path.isdir(t):
        for root, _, names in os.walk(t):
            for n in sorted(names):
                path = os.path.join(root, n)
                files.append({"name": os.path.relpath(path, t), "data": list(open(path, "rb").read())})
    msgs = [l.split("error:", 1)[1].strip() for l in so.splitlines() if "error:" in l]
    if rc not in (0, 1) or (rc != 0 and not msgs):
        msgs.append("abnormal exit %d: %s" % (rc, se.strip()[-200:]))
    return {"rc": rc, "stdout": so[-2000:], "stderr": se[-2000:], "files": files, "msgs": msgs}


def proc_record(cid, cfg, o):
    return {"id": cid, "mode": "proc", "cfg": cfg, "ok": o["rc"] == 0, "files": sorted(o["files"], key=lambda f: f["name"]),
            "hasBanks": False, "banks": [], "errk": classify(o["msgs"]), "ndiags": len(o["msgs"])}


def run_mos_many(mos, jobs, tag, threads=4):
    """jobs: list of (cid, cfg, src, toml) -> {cid: observation}"""
    root = V.fresh_dir(tag)

    def one(j):
        cid, cfg, src, toml = j
        return cid, run_mos(mos, cfg, src, toml, os.path.join(root, "p%s" % cid))
    with ThreadPoolExecutor(max_workers=threads) as ex:
        return dict(ex.map(one, jobs))
