"""Drivers shared by C15 and C16: generate projects (lib/scopegen.py), build them with `mos build`, ask the real
language server about every identifier occurrence, map positions to occurrence ids.  No verdicts."""
import hashlib
import json
import os
import shutil
import subprocess

import lspdrive as L
import scopegen as G


def write_project(d, texts):
    shutil.rmtree(d, ignore_errors=True)
    os.makedirs(d)
    with open(os.path.join(d, "mos.toml"), "w") as f:
        f.write('[build]\nentry = "main.asm"\n')
    for fn, t in texts.items():
        with open(os.path.join(d, fn), "w", encoding="utf-8") as f:
            f.write(t)
    for v in range(1, 8):                                  # data files for `.file "{c}.bin"` (constants have the values 1..7)
        with open(os.path.join(d, "%d.bin" % v), "wb") as f:
            f.write(bytes([v]))


def build(mos, d):
    """-> (ok, digest of everything under target/, stdout)"""
    shutil.rmtree(os.path.join(d, "target"), ignore_errors=True)
    try:
        p = subprocess.run([mos, "--no-color", "-e", "Short", "build"], cwd=d, capture_output=True, text=True, timeout=20)
    except subprocess.TimeoutExpired:
        return False, "", "build takes too long (a loop count that resolves to an address): project not used"
    h = hashlib.sha256()
    t = os.path.join(d, "target")
    n = 0
    if os.path.isdir(t):
        for fn in sorted(os.listdir(t)):
            fp = os.path.join(t, fn)
            if os.path.isfile(fp):
                h.update(fn.encode() + b"\0" + open(fp, "rb").read())
                n += 1
    return p.returncode == 0 and n > 0, h.hexdigest() if n else "", (p.stdout + p.stderr)[-2000:]


def make_projects(rnd, n, mos, wd, tag):
    out = []
    tries = 0
    while len(out) < n and tries < n * 12:
        tries += 1
        g = G.Gen(rnd, two_files=(tries % 3 == 0))
        main, inc = g.program()
        occ = {}
        texts = {"main.asm": "\n".join(G.render(main, "main.asm", occ)) + "\n"}
        if g.two:
            texts["inc.asm"] = "\n".join(G.render(inc, "inc.asm", occ)) + "\n"
        d = os.path.join(wd, "%s%04d" % (tag, len(out) + 1))
        write_project(d, texts)
        ok, digest, msg = build(mos, d)
        if not ok:
            continue
        out.append({"id": len(out) + 1, "dir": d, "main": main, "inc": inc, "two": g.two, "texts": texts, "occ": occ, "digest": digest})
    return out, tries


def files_field(p):
    fs = [{"name": "main.asm", "prog": G.tla_ready(p["main"])}]
    if p["two"]:
        fs.append({"name": "inc.asm", "prog": G.tla_ready(p["inc"])})
    return fs


def ord_field(p):
    """textual order of the occurrences; an imported file's occurrences sit at its import line"""
    imp = [i for i, l in enumerate(p["texts"]["main.asm"].split("\n")) if l.lstrip().startswith(".import")]
    out = []
    for oid, o in sorted(p["occ"].items()):
        if o["f"] == "main.asm":
            out.append({"oid": oid, "n": (o["line"] + 1) * 100000 + o["col"] * 100})
        else:
            out.append({"oid": oid, "n": ((imp[0] if imp else 0) + 1) * 100000 + 1 + o["line"] * 100 + o["col"]})
    return out


def oid_at(occ, root, uri_or_file, rg, texts=None):
    f = L.rel(root, uri_or_file)
    if texts and f in texts:
        ls = texts[f].split("\n")
        if rg == [0, 0, len(ls) - 1, len(ls[-1])]:
            return -4                                  # the whole file
    for oid, o in occ.items():
        if o["f"] == f and rg == [o["line"], o["col"], o["line"], o["col"] + o["len"]]:
            return oid
    return -2


def oids_at(occ, root, uri_or_file, rg, texts=None):
    """like oid_at, but the range of a whole import argument `a as x` stands for its two tokens"""
    one = oid_at(occ, root, uri_or_file, rg, texts)
    if one != -2:
        return [one]
    f = L.rel(root, uri_or_file)
    both = [oid for oid, o in occ.items() if o["f"] == f and "arg" in o and rg == [o["line"], o["arg"][0], o["line"], o["arg"][1]]]
    return sorted(both) or [-2]


def open_all(srv, p, texts=None):
    texts = texts or p["texts"]
    for fn in sorted(texts, key=lambda x: x == "main.asm"):        # main last
        srv.did_open(os.path.join(p["dir"], fn), texts[fn])


def nav_observe(mos, p):
    """definition / references / highlight at every occurrence -> obs rows (positions mapped to oids)"""
    srv = L.Server(mos, p["dir"], timeout=10.0)
    srv.initialize()
    open_all(srv, p)
    obs, raw = [], {}
    root = p["dir"]
    for oid, o in sorted(p["occ"].items()):
        path = os.path.join(root, o["f"])
        ln, ch = o["line"], o["col"] + (1 if o["len"] > 1 else 0)
        row = {"oid": oid, "def": -1, "refsT": [], "refsF": [], "hl": [], "status": "ok"}
        r = srv.request(*L.params_for("definition", path, ln, ch))
        if r["status"] != "ok":
            row["status"] = r["status"]
            obs.append(row)
            break
        if r["result"]:
            l0 = r["result"][0] if isinstance(r["result"], list) else r["result"]
            row["def"] = oid_at(p["occ"], root, l0.get("targetUri", l0.get("uri")), L.rng4(l0.get("targetSelectionRange", l0.get("range"))), p["texts"])
        for key, incl in (("refsT", True), ("refsF", False)):
            r = srv.request(*L.params_for("references", path, ln, ch, include_decl=incl))
            row[key] = sorted({o_ for x in (r["result"] or []) for o_ in oids_at(p["occ"], root, x["uri"], L.rng4(x["range"]), p["texts"])}) if r["status"] == "ok" else [-3]
        r = srv.request(*L.params_for("highlight", path, ln, ch))
        row["hl"] = sorted({o_ for x in (r["result"] or []) for o_ in oids_at(p["occ"], root, path, L.rng4(x["range"]), p["texts"])}) if r["status"] == "ok" else [-3]
        raw[oid] = row
        obs.append(row)
    alive = srv.alive()
    panic = srv.panic_site()
    srv.kill()
    return obs, (alive and all(o["status"] == "ok" for o in obs) and len(obs) == len(p["occ"])), panic


# ---------------------------------------------------------------- LSP edit application (driver; Edits.tla is the specification of it)

def pos_to_index(text, line, ch):
    """LSP position (UTF-16 code units) -> index into the Python string"""
    lines = text.split("\n")
    idx = sum(len(l) + 1 for l in lines[:line])
    if line >= len(lines):
        return len(text)
    l = lines[line]
    u = 0
    for i, c in enumerate(l):
        if u >= ch:
            return idx + i
        u += 2 if ord(c) > 0xFFFF else 1
    return idx + len(l)


def apply_edits(text, edits):
    spans = sorted(((pos_to_index(text, e["range"]["start"]["line"], e["range"]["start"]["character"]),
                     pos_to_index(text, e["range"]["end"]["line"], e["range"]["end"]["character"]), i, e["newText"]) for i, e in enumerate(edits)))
    out, at = [], 0
    for a, b, _, new in spans:
        out.append(text[at:a])
        out.append(new)
        at = max(at, b)
    out.append(text[at:])
    return "".join(out)


def tlc_cases(r):
    """programs printed by MC_Scopes (EmitCase) -> list of ASTs"""
    seen, out = set(), []
    for line in r.prints("CASE"):
        inner = line[line.index(', "') + 2:line.rindex('>>')]
        if inner not in seen:
            seen.add(inner)
            c = json.loads(json.loads(inner))
            out.append((c["prog"], c["inc"]) if "inc" in c else c["prog"])
    return out


def project_from_ast(main, mos, d, pid):
    occ = {}
    inc = []
    if isinstance(main, tuple):
        main, inc = main
    texts = {"main.asm": "\n".join(G.render(main, "main.asm", occ)) + "\n"}
    if inc:
        texts["inc.asm"] = "\n".join(G.render(inc, "inc.asm", occ)) + "\n"
    write_project(d, texts)
    ok, digest, msg = build(mos, d)
    return {"id": pid, "dir": d, "main": main, "inc": inc, "two": bool(inc), "texts": texts, "occ": occ, "digest": digest, "ok": ok}
