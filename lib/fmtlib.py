"""Helpers for the formatter checks C12/C13: building the driver, abstract programs -> text, case generation.

Nothing in here decides a property. Programs are data (JSON trees in the shape spec/Format/Format.tla reads);
render() turns them into concrete source text; the verdicts come from TLC (spec/Format/FormatTrace.tla).
"""
import os
import subprocess
import time

import vplib as V


def build_harness(bins):
    """V.build_harness, except that for an alternate checkout (VERIF_REPO) the harness copy is prepared here
    (vplib's copy step truncates Cargo.toml before reading it)."""
    if V.REPO == "/repo":
        return V.build_harness(bins)
    with V._Lock("cargo-harness"):
        os.makedirs(V.HARNESS, exist_ok=True)
        subprocess.run(["rsync", "-a", "--delete", "--exclude", "target", V.HARNESS_SRC + "/", V.HARNESS + "/"], check=True)
        ct = os.path.join(V.HARNESS, "Cargo.toml")
        text = open(ct).read().replace("/repo/mos-core", os.path.join(V.REPO, "mos-core"))
        with open(ct, "w") as f:
            f.write(text)
        cmd = ["cargo", "build", "--offline", "-q"]
        for b in bins or []:
            cmd += ["--bin", b]
        t = time.time()
        p = subprocess.run(cmd, cwd=V.HARNESS, env=V._cargo_env(), capture_output=True, text=True)
        if p.returncode != 0:
            raise V.ToolError("harness build failed:\n" + p.stdout[-3000:] + p.stderr[-6000:])
        V.log("[build] harness ok (%.1fs)" % (time.time() - t))
    return os.path.join(V.HARNESS, "target", "debug")


# ------------------------------------------------------------------ abstract programs (shape of spec/Format/Format.tla)
# Keys starting with "_" are rendering hints for the source text only and are stripped before TLC sees the program.

def ws(s=" "):
    return {"k": "ws", "p": [s]}


def nl():
    return {"k": "nl", "p": []}


def com(lines):
    return {"k": "c", "p": list(lines)}


def part(t, j="t", g=None, src=None):
    d = {"g": g or [], "t": t, "j": j}
    if src is not None:
        d["_src"] = src
    return d


def stmt(k, tag, p1=None, p2=None, blk=None, lead=None, ge=None, src=None):
    d = {"k": k, "lead": lead or [], "tag": tag, "p1": p1 or [], "p2": p2 or [], "blk": blk or [], "ge": ge or []}
    if src is not None:
        d["_src"] = src
    return d


def block(body, l=None, r=None):
    return {"l": l or [], "body": body, "r": r or []}


def render_trivia(tr):
    out = []
    for x in tr:
        if x["k"] == "ws":
            out.append(x["p"][0])
        elif x["k"] == "nl":
            out.append("\n")
        else:
            out.append("\n".join(x["p"]))
    return "".join(out)


def render_parts(ps):
    return "".join(render_trivia(p["g"]) + p.get("_src", p["t"]) for p in ps)


def render_block(b):
    return render_trivia(b["l"]) + "{" + render_body(b["body"]) + render_trivia(b["r"]) + "}"


def render_stmt(s):
    k = s["k"]
    tag = s.get("_src", s["tag"])
    out = render_trivia(s["lead"])
    if k == "braces":
        return out + "{" + render_body(s["blk"][0]["body"]) + render_trivia(s["blk"][0]["r"]) + "}"
    if k == "label":
        out += tag + ":"
    elif k == "text":
        out += tag + render_parts(s["p2"]) + render_parts(s["p1"])
    else:
        out += tag + render_parts(s["p1"]) + render_parts(s["p2"])
    if k == "cfgpair" and s["blk"]:
        out += render_trivia(s["ge"])
    if s["blk"]:
        out += render_block(s["blk"][0])
    if len(s["blk"]) > 1:
        out += render_trivia(s["ge"]) + "else" + render_block(s["blk"][1])
    return out


def render_body(body):
    return "".join(render_stmt(s) for s in body)


def render_file(f):
    return render_body(f["body"]) + render_trivia(f["eof"])


def tla_ready(x):
    if isinstance(x, dict):
        return {k: tla_ready(v) for k, v in x.items() if not k.startswith("_")}
    if isinstance(x, list):
        return [tla_ready(v) for v in x]
    return x


MNEM_IMPLIED = ["nop", "inx", "iny", "dex", "dey", "clc", "sec", "tax", "txa", "pha", "pla", "rts"]
MNEM_OPER = ["lda", "sta", "ldx", "ldy", "adc", "and", "ora", "eor", "cmp", "sbc"]


class Gen:
    """Seeded generator of abstract programs over the statement grammar the model covers, with trivia (whitespace,
    line comments, one- and two-line block comments) in every gap where the parser accepts it."""

    def __init__(self, rnd, comment_rate=0.25, sameline_rate=0.0, depth=2, multiline=True):
        self.ml = multiline
        self.r = rnd
        self.cr = comment_rate
        self.slr = sameline_rate
        self.depth = depth
        self.nc = 0
        self.nl_ = 0
        self.labels = []
        self.consts = []
        self.macros = []

    # -- trivia
    def comment(self, allow_line):
        self.nc += 1
        n = self.nc
        k = self.r.randrange(4 if allow_line else 3)
        if not self.ml and k in (1, 2):
            k = 0
        if k == 0:
            return [com(["/* c%d */" % n])]
        if k == 1:
            return [com(["/* c%d" % n, self.r.choice(["", " ", "   "]) + "more%d */" % n])]
        if k == 2:
            mid = "" if self.r.random() < 0.15 else self.r.choice(["", "  "]) + "mid"      # sometimes an empty line inside the comment
            return [com(["/* c%d" % n, mid, "end%d */" % n])]
        return [com(["// c%d" % n]), nl()]

    def wsp(self):
        return ws(self.r.choice([" ", " ", "  ", "\t", "    "]))

    def gap1(self, need_space):
        """single-line gap (parser: ws): whitespace and block comments only"""
        out = []
        if need_space or self.r.random() < 0.4:
            out.append(self.wsp())
        if self.r.random() < self.cr:
            out += self.comment(False)
            if need_space or self.r.random() < 0.5:
                out.append(self.wsp())
        return out

    def gapn(self, need_nl, first=False):
        """multi-line gap (parser: mws): newlines, whitespace, line and block comments"""
        out = []
        if self.r.random() < 0.3:
            out.append(self.wsp())
        if self.r.random() < self.cr:
            out += self.comment(True)
        if need_nl and not any(x["k"] == "nl" for x in out):
            out.append(nl())
        while self.r.random() < 0.25:
            out.append(nl())
        if self.r.random() < self.cr * 0.6:
            out += self.comment(True)
            if self.r.random() < 0.5:
                out.append(nl())
        if self.r.random() < 0.6 or not need_nl and not first:
            out.append(self.wsp())
        return out

    # -- expressions as flat part lists
    def atom(self):
        r = self.r
        k = r.randrange(6)
        if k == 0 and self.labels:
            return [part(r.choice(self.labels))]
        if k == 1 and self.consts:
            return [part(r.choice(self.consts))]
        if k == 2:
            return [part("$%x" % r.randrange(0, 65536))]
        if k == 3:
            return [part("%" + bin(r.randrange(1, 200))[2:])]
        if k == 4 and self.labels:
            return [part(r.choice("<>")), part(r.choice(self.labels), g=self.gap1(False) if r.random() < 0.2 else [])]
        if r.random() < 0.15:
            return [part(r.choice(["true", "false"]))]
        if r.random() < 0.1 and self.consts:
            return [part("defined"), part("(", g=self.gap1(False)), part(r.choice(self.consts), g=self.gap1(False)), part(")", g=self.gap1(False))]
        return [part(str(r.randrange(0, 256)))]

    def expr(self, small=False):
        r = self.r
        k = r.randrange(8)
        a = self.atom()
        if small or k < 4:
            return a
        if k < 6:
            b = self.atom()
            op = part(r.choice(["+", "-", "*"]), "b", g=self.gap1(False))
            b[0]["g"] = self.gap1(False) + b[0]["g"]
            return a + [op] + b
        if k == 6:
            b = self.atom()
            b[0]["g"] = self.gap1(False) + b[0]["g"]
            return [part("(")] + a + [part("+", "b", g=self.gap1(False))] + b + [part(")", g=self.gap1(False))]
        return [part("-")] + [part(str(r.randrange(1, 100)))]

    def first_gap(self, ps, need_space):
        ps[0]["g"] = self.gap1(need_space) + ps[0]["g"]
        return ps

    def anycase(self, s):
        k = self.r.randrange(4)
        return s.upper() if k == 0 else (s.capitalize() if k == 1 and not s.startswith(".") else s)

    # -- statements
    def insn(self):
        r = self.r
        k = r.randrange(8)
        if k == 0:
            m = r.choice(MNEM_IMPLIED)
            return stmt("insn", m, src=self.anycase(m))
        if k == 7:
            ps = [part("(", g=self.gap1(True))] + self.first_gap([part("$%04x" % r.randrange(0x200, 0xff00))], False) + [part(")", g=self.gap1(False))]
            return stmt("insn", "jmp", p1=ps, src=self.anycase("jmp"))
        m = r.choice(MNEM_OPER)
        if k in (1, 2):
            ps = [part("#", g=self.gap1(True))] + self.first_gap(self.expr(True) if k == 1 or not self.labels else [part("<"), part(r.choice(self.labels))], False)
            if m == "sta":
                m = "lda"
        elif k == 3:
            ps = self.first_gap(self.expr(), True)
        elif k == 4:
            reg = r.choice("xy") if m not in ("ldx", "ldy") else ("y" if m == "ldx" else "x")
            if m in ("ldx", "ldy") or (m == "sta" and False):
                pass
            ps = self.first_gap(self.expr(True), True) + [part(",", "c", g=self.gap1(False)), part(reg, "r", g=self.gap1(False), src=self.anycase(reg))]
        elif k == 5:
            m = r.choice(["lda", "sta", "adc", "cmp"])
            ps = [part("(", g=self.gap1(True))] + self.first_gap([part("$%02x" % r.randrange(2, 250))], False) + \
                 [part(")", g=self.gap1(False)), part(",", "c", g=self.gap1(False)), part("y", "r", g=self.gap1(False), src=self.anycase("y"))]
        else:
            m = r.choice(["lda", "sta", "adc", "cmp"])
            ps = [part("(", g=self.gap1(True))] + self.first_gap([part("$%02x" % r.randrange(2, 250))], False) + \
                 [part(",", "c", g=self.gap1(False)), part("x", "r", g=self.gap1(False), src=self.anycase("x")), part(")", g=self.gap1(False))]
        return stmt("insn", m, p1=ps, src=self.anycase(m))

    def arglist(self, n):
        ps = []
        for i in range(n):
            e = self.expr(True)
            e[0]["g"] = self.gap1(False) + e[0]["g"]
            ps += e
            if i < n - 1:
                ps.append(part(",", "c", g=self.gap1(False)))
        return ps

    def body(self, depth, n):
        out = []
        for i in range(n):
            out.append(self.statement(depth, prev=out[-1] if out else None))
        return out

    def blk(self, depth, lgap=True):
        n = self.r.choice([0, 1, 1, 2, 3])
        b = block(self.body(depth - 1, n), l=(self.gapn(False) if lgap else []), r=[])
        # comments in front of "{" are what format_block discards: keep them rare so other checks are not shadowed
        if lgap and any(x["k"] == "c" for x in b["l"]) and self.r.random() < 0.7:
            b["l"] = [x for x in b["l"] if x["k"] != "c"]
        b["r"] = self.gapn(False)
        self.fix_first_lead(b["body"])
        return b

    def fix_first_lead(self, body):
        pass

    def statement(self, depth, prev=None):
        r = self.r
        kinds = ["insn"] * 6 + ["label", "label", "data", "data", "var", "pc", "align", "text", "assert", "trace", "call"]
        kinds += ["segment", "file", "import", "define"] if self.r.random() < 0.5 else []
        if depth > 0:
            kinds += ["braces", "if", "if", "loop", "labelblk", "macro", "test", "segmentblk", "importblk"]
        k = r.choice(kinds)
        if k == "call" and not self.macros:
            k = "insn"
        if k == "braces" and prev is not None and prev["k"] in ("label", "segment", "import") and not prev["blk"]:
            k = "insn"                      # "l1:" newline "{" is ONE statement for the parser (a label with a block)
        s = None
        if k == "insn":
            s = self.insn()
        elif k in ("label", "labelblk"):
            self.nl_ += 1
            name = "l%d" % self.nl_ if r.random() < 0.7 else "a_rather_long_label_name_%d" % self.nl_
            s = stmt("label", name, blk=[self.blk(depth)] if k == "labelblk" else [])
            self.labels.append(name)
        elif k == "data":
            tag = r.choice([".byte", ".word", ".dword"])
            s = stmt("data", tag, p1=self.first_gap(self.arglist(r.randrange(1, 4)), True), src=self.anycase(tag))
        elif k == "var":
            tag = r.choice([".const", ".var"])
            name = "c%d" % (len(self.consts) + 1)
            s = stmt("var", tag, p1=[part(name, g=self.gap1(True)), part("=", g=self.gap1(False))] + self.first_gap(self.expr(), False), src=self.anycase(tag))
            self.consts.append(name)
        elif k == "pc":
            s = stmt("pc", "*", p1=[part("=", g=self.gap1(False))] + self.first_gap([part("$%04x" % r.randrange(0x1000, 0xc000))], False))
        elif k == "align":
            s = stmt("align", ".align", p1=self.first_gap([part(str(r.choice([2, 4, 8, 16])))], True), src=self.anycase(".align"))
        elif k == "text":
            enc = [part(r.choice(["ascii", "petscii", "petscreen"]), g=self.gap1(True))] if r.random() < 0.4 else []
            lit = '"t%d"' % r.randrange(100) if not self.consts or r.random() < 0.6 else '"v{%s}w"' % r.choice(self.consts)
            s = stmt("text", ".text", p1=[part(lit, g=self.gap1(True))], p2=enc, src=self.anycase(".text"))
        elif k == "assert":
            msg = [part('"m%d"' % r.randrange(100), g=self.gap1(True))] if r.random() < 0.5 else []
            s = stmt("assert", ".assert", p1=self.first_gap(self.atom() + [part("==", "b", g=self.gap1(False))] + self.first_gap(self.atom(), False), True), p2=msg, src=self.anycase(".assert"))
        elif k == "trace":
            if r.random() < 0.4:
                s = stmt("trace", ".trace", src=self.anycase(".trace"))
            else:
                s = stmt("trace", ".trace", p1=[part("(", g=self.gap1(False))] + self.arglist(r.randrange(1, 3)) + [part(")", g=self.gap1(False))], src=self.anycase(".trace"))
        elif k == "call":
            name, n = r.choice(self.macros)
            s = stmt("call", name, p1=[part("(", g=self.gap1(False))] + self.arglist(n) + [part(")", g=self.gap1(False))])
        elif k == "braces":
            s = stmt("braces", "", blk=[self.blk(depth, lgap=False)])
        elif k == "if":
            bl = [self.blk(depth)]
            ge = []
            if r.random() < 0.5:
                ge = self.gapn(False)
                bl.append(self.blk(depth))
            s = stmt("if", ".if", p1=self.first_gap(self.expr(True), True), blk=bl, ge=ge, src=self.anycase(".if"))
        elif k == "loop":
            s = stmt("loop", ".loop", p1=self.first_gap([part(str(r.randrange(1, 4)))], True), blk=[self.blk(0)], src=self.anycase(".loop"))
        elif k == "macro":
            name = "m%d" % (len(self.macros) + 1)
            n = r.randrange(0, 3)
            args = []
            for i in range(n):
                args.append(part("p%d" % i, g=self.gap1(False)))
                if i < n - 1:
                    args.append(part(",", "c", g=self.gap1(False)))
            s = stmt("macro", ".macro", p1=[part(name, g=self.gap1(True)), part("(", g=self.gap1(False))] + args + [part(")", g=self.gap1(False))],
                     blk=[self.blk(0)], src=self.anycase(".macro"))
            self.macros.append((name, n))
        elif k in ("segment", "segmentblk"):
            s = stmt("segment", ".segment", p1=[part(r.choice(['"default"', '"s1"']), g=self.gap1(True))],
                     blk=[self.blk(depth)] if k == "segmentblk" else [], src=self.anycase(".segment"))
        elif k == "file":
            s = stmt("file", ".file", p1=[part('"f%d.bin"' % r.randrange(10), g=self.gap1(True))], src=self.anycase(".file"))
        elif k in ("import", "importblk"):
            def as_(name):
                return [part("as", "a", g=self.gap1(True), src=self.anycase("as")), part(name, g=self.gap1(True))]
            form = r.randrange(5)
            if form == 0:
                args = [part("*", "c", g=self.gap1(True))]
            elif form == 1:
                args = [part("*", "c", g=self.gap1(True))] + as_("im%d" % r.randrange(100))
            elif form == 2:
                args = [part("foo", "c", g=self.gap1(True))]
            elif form == 3:
                args = [part("foo", "c", g=self.gap1(True))] + as_("f%d" % r.randrange(100))
            else:
                args = [part("foo", "c", g=self.gap1(True))] + (as_("f%d" % r.randrange(100)) if r.random() < 0.5 else []) + \
                       [part(",", "c", g=self.gap1(False)), part("baz", "c", g=self.gap1(False))] + (as_("b%d" % r.randrange(100)) if r.random() < 0.5 else [])
            fg = self.gapn(False)
            if not fg or fg[-1]["k"] == "c":
                fg.append(self.wsp())
            if fg[0]["k"] == "c":
                fg.insert(0, self.wsp())
            s = stmt("import", ".import", p1=args, p2=[part("from", g=fg, src=self.anycase("from")), part('"o.asm"', g=self.gap1(True))],
                     blk=[self.blk(depth)] if k == "importblk" else [], src=self.anycase(".import"))
        elif k == "define":
            what = r.choice(["segment", "bank"])
            self.ndef = getattr(self, "ndef", 0) + 1
            vals = ([("name", [part("s%d" % self.ndef)]), ("start", [part("$%04x" % r.randrange(0x3000, 0x9000))] + ([part("+", "b", g=self.gap1(False)), part("4", g=self.gap1(False))] if r.random() < 0.3 else []))]
                    if what == "segment" else [("name", [part("b%d" % self.ndef)]), ("fill", [part(str(r.randrange(256)))])])
            if what == "segment" and r.random() < 0.4:
                vals.append(("write", [part(r.choice(["true", "false"]))]))
            if r.random() < 0.15:
                vals.append(("nested", None))
            pairs = []
            for i, (key, v) in enumerate(vals):
                lead = self.gapn(False, first=True) if i == 0 else (self.gapn(True) if r.random() < 0.8 else [self.wsp()])
                if i > 0 and lead and lead[0]["k"] == "c":
                    lead.insert(0, self.wsp())
                if v is None:
                    inner = stmt("cfgpair", "nested-id", p1=[part("=", g=self.gapn(False)), part("v1", g=self.gapn(False))], lead=self.gapn(False, first=True))
                    pairs.append(stmt("cfgpair", key, p1=[part("=", g=self.gapn(False))], blk=[block([inner], r=self.gapn(False))], ge=self.gapn(False), lead=lead))
                else:
                    v[0]["g"] = self.gapn(False) + v[0]["g"]
                    pairs.append(stmt("cfgpair", key, p1=[part("=", g=self.gapn(False))] + v, lead=lead))
            s = stmt("define", ".define", p1=[part(what, g=self.gap1(True))], blk=[block(pairs, l=self.gapn(False), r=self.gapn(False))], src=self.anycase(".define"))
        elif k == "test":
            s = stmt("test", ".test", p1=[part('"t%d"' % r.randrange(1000), g=self.gap1(True))], blk=[self.blk(0)], src=self.anycase(".test"))
        # leading trivia: a statement normally starts on a new line
        if prev is None:
            s["lead"] = self.gapn(False, first=True)
        elif prev["k"] == "label" and not prev["blk"] and s["k"] in ("insn", "call", "data", "text") and r.random() < 0.4:
            s["lead"] = self.gap1(True)     # "label: code" on one line
        elif prev["blk"] and s["k"] != "braces" and r.random() < 0.12:
            s["lead"] = self.gap1(True)     # shares its line with the closing brace of the previous statement's block
        elif self.slr and r.random() < self.slr and s["k"] in ("insn", "call") and prev["k"] in ("insn", "call"):
            s["lead"] = [ws(" ")]          # shares the line with its predecessor
        else:
            s["lead"] = self.gapn(True)
        return s

    def file(self, n):
        body = self.body(self.depth, n)
        eof = self.gapn(False, first=True) if self.r.random() < 0.8 else []
        if eof and eof[-1]["k"] == "c" and eof[-1]["p"][0].startswith("//"):
            pass
        return {"body": body, "eof": eof}


OPT_GRID = {"mcase": ["l", "u"], "rcase": ["l", "u"], "brace": ["same", "new"], "indent": [0, 2, 4, 8], "lm": [0, 4, 20],
            "align": ["l", "r"], "cm": [0, 6, 30]}


def random_opts(r):
    o = {k: r.choice(v) for k, v in OPT_GRID.items()}
    if r.random() < 0.15:
        o["indent"] = r.randrange(0, 9)
        o["lm"] = r.randrange(0, 24)
        o["cm"] = r.randrange(0, 34)
    return o


OTHER_ASM = "foo: nop\nbaz: rts\n"
DEFAULT_OPTS = {"mcase": "l", "rcase": "l", "brace": "same", "indent": 4, "lm": 20, "align": "r", "cm": 30}
EMPTY_FILE = {"body": [], "eof": []}


# ------------------------------------------------------------------ driving and reshaping (no verdicts)

def drive(cases, tag):
    """cases: list of {id, files, entry?, opts, asm}. Returns {id: observation}."""
    obs, p = V.run_harness("fmtdrive", cases, tag)
    if len(obs) != len(cases):
        raise V.ToolError("fmtdrive produced %d of %d observations: %s" % (len(obs), len(cases), p.stderr[-2000:]))
    return {o["id"]: o for o in obs}


def record(cid, obs, opts, model=None, fname="main.asm"):
    """One judge record (kind "fmt") for file `fname` of an observation; shape documented in FormatTrace.tla."""
    f = next((x for x in obs["files"] if x["name"] == fname), None)
    ok = bool(obs["ok"]) and (f is not None or bool(obs.get("panic")))
    if f is None:
        f = {"ast": [], "ast_fmt": [], "comments": [], "comments_fmt": [], "lex": "", "lex_fmt": "", "dropgap": [], "fmt": "", "fmt2": "",
             "fmt_lines": [], "fmt2_lines": []}
    asm = bool(obs.get("asm")) and obs.get("asm_before") is not None
    return {"id": cid, "kind": "fmt", "hasModel": model is not None, "file": tla_ready(model) if model is not None else EMPTY_FILE,
            "opts": opts, "ok": ok, "panic": obs.get("panic") or "", "panicWidth": "Formatting argument out of range" in (obs.get("panic") or ""), "reparse_ok": bool(obs.get("reparse_ok")),
            "asm": asm, "asm_same": (obs.get("asm_before") == obs.get("asm_after")) if asm else True,
            "ast": f["ast"], "ast_fmt": f["ast_fmt"], "comments": f["comments"], "comments_fmt": f["comments_fmt"],
            "lex": f["lex"], "lex_fmt": f["lex_fmt"], "dropgap": [d["text"] for d in f["dropgap"] if d["owner"] != "import-arg"],
            "dropimp": [d["text"] for d in f["dropgap"] if d["owner"] == "import-arg"],
            "fmt": f["fmt"], "fmt2": f["fmt2"], "lines": f["fmt_lines"], "lines2": f["fmt2_lines"]}


# ------------------------------------------------------------------ the shared C12/C13 run
import json
import shutil

SPECDIR = os.path.join(V.SPEC, "Format")
GOLDEN = ["mos-core/test-data/format/valid-unformatted.asm", "mos-core/test-data/format/valid-formatted.asm"]


# deviations for which Format.tla has a pinned and a repaired reading (constant Devs), and all recorded ones
DEVS_IN_SPEC = ["OpenBraceGapDropped", "SameLineStatementsGlued", "ElseOnNewLineGainsBlankLine", "ImportArgGapDropped", "FormatWidthPanics"]
DESIGN_REFUTED = {"C12": ["OpenBraceGapDropped", "SameLineStatementsGlued", "ImportArgGapDropped", "FormatWidthPanics"],
                  "C13": ["ElseOnNewLineGainsBlankLine", "BlockCommentContinuationPadded"]}
INVARIANTS = ("NeverPanics CommentsKept NoJoin TerminalsKept StepwiseIsFunctional OneStatementPerLine NoTrailingBlanks NoDoubleBlank "
              "ContinuationVerbatim ElseStaysAttached")
CP2 = '{"lu", "ul"}'            # (mnemonic casing, register casing)
CP4 = '{"ll", "lu", "ul", "uu"}'
# (Indents, Margins, CodeMargins, ReplayIndent, CasePairs, MaxWidth, FormLimit); "width" puts the margins on a scaled width limit of 8
GRIDS = {"small": ("{2}", "{4}", "{6}", 99, CP2, 65535, 31), "quick": ("{0, 2}", "{0, 4}", "{0, 6}", 2, CP2, 65535, 31),
         "thorough": ("{0, 2, 8}", "{0, 4, 20}", "{0, 6, 30}", 2, CP4, 65535, 31),
         "width": ("{0, 2, 9}", "{0, 8, 9}", "{0, 1}", 99, '{"lu"}', 8, 7)}


def findings_view():
    """Rows for C12/C13: the merged file (known_findings.jsonl, or the file named by VERIF_FINDINGS for trial runs) wins,
    rows of checks/C1x/findings.jsonl that it does not have yet are added."""
    path = os.environ.get("VERIF_FINDINGS") or os.path.join(V.VERIF, "known_findings.jsonl")
    rows = []
    if os.path.exists(path):
        for line in open(path):
            line = line.strip()
            if line and not line.startswith("#"):
                f = json.loads(line)
                if f.get("property") in ("C12", "C13"):
                    rows.append(f)
    have = {(f["property"], f["deviation"]) for f in rows}
    for prop in ("C12", "C13"):
        own = os.path.join(V.VERIF, "checks", prop, "findings.jsonl")
        if os.path.exists(own):
            for line in open(own):
                if line.strip():
                    f = json.loads(line)
                    if (f["property"], f["deviation"]) not in have:
                        rows.append(f)
    return rows


def open_names(rows):
    """a deviation is pinned in the specification as long as one of its rows (C12 or C13) is open"""
    return sorted({f["deviation"] for f in rows if f.get("status") == "open"})


def tla_set(names):
    return "{" + ", ".join('"%s"' % n for n in names) + "}"


def mc_cfg(name, devs, allowed, grid, invariants):
    d = V.workdir("fmt-cfg")
    path = os.path.join(d, name + ".cfg")
    ind, lm, cm, replay, cps, maxw, nforms = GRIDS[grid]
    with open(path, "w") as f:
        f.write("SPECIFICATION Spec\nCONSTANTS Devs = %s\n  Allowed = %s\n  Indents = %s\n  Margins = %s\n  CodeMargins = %s\n  ReplayIndent = %d\n  CasePairs = %s\n  MaxWidth = %d\n  FormLimit = %d\nINVARIANTS %s\n"
                % (tla_set(devs), tla_set(allowed), ind, lm, cm, replay, cps, maxw, nforms, invariants))
    return path


CMD_DEVS = ["FormatEntryFromCwd", "FormatWidthPanics"]


def cmd_cfg(name, devs, tolerated):
    d = V.workdir("fmt-cfg")
    path = os.path.join(d, "MC_FormatCmd-%s.cfg" % name)
    with open(path, "w") as f:
        f.write("SPECIFICATION CSpec\nCONSTANTS N = 3\n  Deviations = %s\n  Tolerated = %s\nINVARIANTS UntouchedOnError OnlyProjectTouched FinalPost\nPROPERTY Terminates\n"
                % (tla_set(devs), tla_set(tolerated)))
    return path


def trace_cfg(prop, devs):
    d = V.workdir("fmt-cfg")
    path = os.path.join(d, "FormatTrace_%s.cfg" % prop)
    with open(path, "w") as f:
        f.write('SPECIFICATION Spec\nCONSTANTS Prop = "%s"\n  Devs = %s\n  MaxWidth = 65535\nPOSTCONDITION Consumed\n' % (prop, tla_set(devs)))
    return path


def design_level(rep, tier, prop, opened):
    """Model-check the formatter machine (MC_Format) under the readings selected by the open findings and, for C12, the
    command machine (MC_FormatCmd).  Returns the cases TLC printed for replay."""
    mc = os.path.join(SPECDIR, "MC_Format.tla")
    devs = [d for d in DEVS_IN_SPEC if d in opened]
    cfg = mc_cfg("%s-MC_Format-%s" % (prop, tier), devs, opened, "quick" if tier == "quick" else "thorough", INVARIANTS)
    r = V.tlc(mc, cfg=cfg, workers=6, timeout=3000, tag=prop + "-mc", xmx="8g")
    rep.add_tlc(r)
    quiet = "\n".join(l for l in r.out.splitlines() if not l.startswith('<<"CASE"'))
    if r.invariant_violated:
        rep.violations.append({"why": "design level: an invariant of MC_Format is violated", "replay": {"tlc_output": V.tail(quiet, 80), "cfg": open(cfg).read()}, "id": "MC_Format"})
        return []
    if r.rc != 0 or "Error:" in quiet:
        raise V.ToolError("MC_Format failed:\n" + V.tail(quiet, 40))
    rep.notes.append("MC_Format (%s grid, pinned readings %s, tolerated deviations %s): %d distinct states, depth %d; %s hold"
                     % (tier, devs or "none", opened or "none", r.distinct, r.depth, INVARIANTS.replace(" ", ", ")))
    # runs must reach the end
    rv = V.tlc(mc, cfg=mc_cfg(prop + "-vac", devs, opened, "small", "NeverDone"), workers=4, timeout=900, tag=prop + "-vac")
    rep.add_tlc(rv)
    if not rv.invariant_violated:
        raise V.ToolError("MC_Format: no run of the machine reaches its end")
    if prop == "C12":      # the margins on the (scaled) width limit: label margin / indent / label + code margin at, below and beyond it
        rw = V.tlc(mc, cfg=mc_cfg("C12-width", devs, opened, "width", INVARIANTS), workers=4, timeout=900, tag="C12-width")
        rep.add_tlc(rw)
        if rw.invariant_violated:
            rep.violations.append({"why": "design level: MC_Format (width boundary grid) invariant violated", "replay": {"tlc_output": V.tail(rw.out, 80)}, "id": "MC_Format-width"})
        elif rw.rc != 0:
            raise V.ToolError("MC_Format width grid failed:\n" + V.tail(rw.out, 40))
        rep.notes.append("MC_Format width-boundary grid (MaxWidth scaled to 8, margins {0,8,9}, indent {0,2,9}): %d states" % rw.distinct)
    # every recorded defect of this property, open or repaired: its pinned reading without the tolerance must be refuted
    for d in DESIGN_REFUTED[prop]:
        dv = sorted(set(devs) | ({d} if d in DEVS_IN_SPEC else set()))
        al = [x for x in opened if x != d]
        rv = V.tlc(mc, cfg=mc_cfg("%s-refute-%s" % (prop, d), dv, al, "width" if d == "FormatWidthPanics" else "small", INVARIANTS), workers=4, timeout=900, tag=prop + "-refute")
        rep.add_tlc(rv)
        if not rv.invariant_violated:
            raise V.ToolError("MC_Format: the pinned reading of %s is not refuted once the deviation is not tolerated" % d)
    rep.notes.append("binding runs: end states are reached; the pinned reading of each of %s (open or repaired) is refuted by TLC when it is not tolerated"
                     % ", ".join(DESIGN_REFUTED[prop]))
    if prop == "C12":
        mcc = os.path.join(SPECDIR, "MC_FormatCmd.tla")
        cdevs = [d for d in CMD_DEVS if d in opened]
        rc = V.tlc(mcc, cfg=cmd_cfg("regular", cdevs, cdevs), workers=2, timeout=600, tag="C12-mccmd")
        rep.add_tlc(rc)
        if rc.invariant_violated:
            rep.violations.append({"why": "design level: MC_FormatCmd invariant/liveness violated", "replay": {"tlc_output": V.tail(rc.out, 60)}, "id": "MC_FormatCmd"})
        elif rc.rc != 0:
            raise V.ToolError("MC_FormatCmd failed:\n" + V.tail(rc.out, 40))
        for d in CMD_DEVS + ["WriteBeforeParseAll"]:
            rv = V.tlc(mcc, cfg=cmd_cfg("refute-" + d, sorted(set(cdevs) | {d}), [x for x in cdevs if x != d]), workers=2, timeout=600, tag="C12-mccmd-refute")
            if not rv.invariant_violated:
                raise V.ToolError("MC_FormatCmd: the pinned reading of %s is not refuted once it is not tolerated" % d)
        rep.notes.append("MC_FormatCmd: N=3 files + a decoy main.asm, started in the root or a subdirectory, with/without a width beyond the limit, every "
                         "error subset and rewrite order: UntouchedOnError, OnlyProjectTouched, FinalPost, Terminates (%d states, pinned %s); the pinned "
                         "readings of %s are each refuted" % (rc.distinct, cdevs or "none", ", ".join(CMD_DEVS + ["WriteBeforeParseAll"])))
    cases = []
    for line in r.prints("CASE"):
        m = line[len('<<"CASE", '):-2]
        cases.append(json.loads(json.loads(m)))
    if not cases:
        raise V.ToolError("MC_Format printed no cases")
    return cases


def golden_cases():
    out = []
    other = "{nop}"
    for g in GOLDEN:
        path = os.path.join(V.REPO, g)
        if os.path.exists(path):
            out.append(({"main.asm": open(path).read(), "other.asm": other}, os.path.basename(g)))
    return out


def mutate_text(text, rnd):
    """corpus mutation: drop / duplicate / swap lines, re-indent, change option-relevant spacing"""
    lines = text.split("\n")
    for _ in range(rnd.randrange(1, 4)):
        if not lines:
            break
        i = rnd.randrange(len(lines))
        k = rnd.randrange(5)
        if k == 0:
            del lines[i]
        elif k == 1:
            lines.insert(i, lines[i])
        elif k == 2:
            j = rnd.randrange(len(lines))
            lines[i], lines[j] = lines[j], lines[i]
        elif k == 3:
            lines[i] = " " * rnd.randrange(0, 12) + lines[i].lstrip()
        else:
            lines.insert(i, rnd.choice(["", "// inserted", "/* ins */", "   ", "nop // x", "{", "}"]))
    return "\n".join(lines)


def build_cases(tier, prop, mc_cases):
    """Returns (driver cases, meta): meta[id] = dict(model, opts, src, family)."""
    rnd = V.rng(prop + "-cases")
    cases, meta = [], {}

    def add(files, opts, model, family, asm=True):
        cid = len(cases) + 1
        cases.append({"id": cid, "files": files, "entry": "main.asm", "opts": opts, "asm": asm})
        meta[cid] = {"model": model, "opts": opts, "family": family}
        return cid

    # 1. the cases TLC generated at design level (with the text the model predicts: checked again by tier 2)
    # the small families (statements sharing a line, statement after a closing brace, else placement) are always replayed in full
    special = [c for c in mc_cases if c.get("special")]
    rest = [c for c in mc_cases if not c.get("special")]
    sel = special + rnd.sample(rest, min(len(rest), 2500 if tier == "quick" else 30000))
    for c in sel:
        add({"main.asm": render_file(c["file"]), "o.asm": OTHER_ASM}, c["opts"], c["file"], "tlc")
    # 2. seeded random programs over the whole modelled grammar
    n = 2000 if tier == "quick" else 20000
    for i in range(n):
        g = Gen(rnd, comment_rate=rnd.choice([0.05, 0.1, 0.2, 0.4]), sameline_rate=rnd.choice([0, 0, 0, 0.1]),
                depth=rnd.choice([1, 2, 2]), multiline=rnd.random() < 0.6)
        f = g.file(rnd.randrange(1, 7))
        add({"main.asm": render_file(f), "o.asm": OTHER_ASM}, random_opts(rnd), f, "random")
    # 2b. widths on the limit of what `format!` can pad (65535): tier 1 only
    tiny = "foo: nop // c\n{\n  { lda #1 }\n}\n"
    for key, val in [("lm", 65535), ("lm", 65536), ("indent", 65535), ("indent", 65536), ("cm", 65535), ("cm", 65536)]:
        add({"main.asm": tiny}, dict(DEFAULT_OPTS, **{key: val}), None, "width", asm=False)
    add({"main.asm": tiny}, dict(DEFAULT_OPTS, lm=40000, cm=40000), None, "width", asm=False)
    # 3. the repository's golden files (all statement kinds incl. .define/.import/.file/.segment) and mutations of them; no model
    for files, name in golden_cases():
        add(files, dict(DEFAULT_OPTS), None, "golden")
        for i in range(40 if tier == "quick" else 400):
            f2 = dict(files)
            f2["main.asm"] = mutate_text(files["main.asm"], rnd) if i % 4 else files["main.asm"]
            add(f2, random_opts(rnd), None, "golden-mutated")
    return cases, meta


MOS_TOML = """[build]
entry = "main.asm"

[formatting.mnemonics]
casing = "%s"
register-casing = "%s"

[formatting.braces]
position = "%s"

[formatting.whitespace]
indent = %d
label-margin = %d
label-alignment = "%s"
code-margin = %d
"""


def cmd_cases(tier, prop):
    """Projects of 1-3 files for `mos format`, with and without a parse error in one file."""
    rnd = V.rng(prop + "-cmd")
    out = []
    n = 12 if tier == "quick" else 60
    for i in range(n):
        nfiles = 1 + i % 3
        opts = random_opts(rnd)
        files = {}
        names = ["main.asm", "a.asm", "b.asm"][:nfiles]
        for j, name in enumerate(names):
            g = Gen(rnd, comment_rate=0.2, depth=1, multiline=False)
            f = g.file(rnd.randrange(1, 5))
            text = render_file(f)
            if j + 1 < nfiles:
                text = '.import * from "%s"\n' % names[j + 1] + text
            files[name] = text
        err = i % 2 == 1
        if err:
            bad = names[rnd.randrange(nfiles)]
            files[bad] += "\n lda #(\n"
        out.append({"files": files, "opts": opts, "err": err, "cwd": "root", "decoy": False})
    # margins at 0, on and beyond the width limit
    tiny = "foo: nop // c\n{\n  { lda #1 }\n}\n"
    for key in ("lm", "indent", "cm"):
        for val in (0, 65535, 65536):
            out.append({"files": {"main.asm": tiny}, "opts": dict(DEFAULT_OPTS, **{key: val}), "err": False, "cwd": "root", "decoy": False})
    # started in the project root / in a subdirectory, with and without a main.asm of its own there
    for cwd, decoy, err in [("sub", False, False), ("sub", False, True), ("sub", True, False), ("sub", True, True), ("root", True, False)]:
        files = {"main.asm": '.import * from "a.asm"\nstart:   lda #1 // c\n' + (" lda #(\n" if err else ""), "a.asm": "lib:    rts\n"}
        out.append({"files": files, "opts": random_opts(rnd), "err": err, "cwd": cwd, "decoy": decoy})
    return out


DECOY_TEXT = "decoy:     nop   // not part of the project\n"


def run_mos_format(mos, proj, idx):
    d = V.fresh_dir("fmt-cmd/%d" % idx)
    o = proj["opts"]
    with open(os.path.join(d, "mos.toml"), "w") as f:
        f.write(MOS_TOML % ("uppercase" if o["mcase"] == "u" else "lowercase", "uppercase" if o["rcase"] == "u" else "lowercase",
                            "new-line" if o["brace"] == "new" else "same-line", o["indent"], o["lm"], "left" if o["align"] == "l" else "right", o["cm"]))
    for name, text in proj["files"].items():
        with open(os.path.join(d, name), "w") as f:
            f.write(text)
    sub = os.path.join(d, "sub")
    os.makedirs(sub)
    others = {}
    if proj["decoy"]:
        others["sub/main.asm"] = DECOY_TEXT
        with open(os.path.join(sub, "main.asm"), "w") as f:
            f.write(DECOY_TEXT)
    p = subprocess.run([mos, "--no-color", "-e", "Short", "format"], cwd=sub if proj["cwd"] == "sub" else d, capture_output=True, text=True, timeout=120)
    after = {name: open(os.path.join(d, name)).read() for name in proj["files"]}
    oafter = {name: open(os.path.join(d, name)).read() for name in others}
    crashed = p.returncode not in (0, 1) or "panicked at" in p.stderr
    outcome = "crash" if crashed else ("ok" if p.returncode == 0 else "error")
    return p, after, others, oafter, outcome


def run(prop, tier):
    """The whole check for prop in {"C12", "C13"}; returns the exit code."""
    rep = V.Report(prop, tier)
    # which findings are open decides (a) what is reported as KNOWN-FINDING and (b) which reading of Format.tla runs
    rows = findings_view()
    rep.open = {f["deviation"]: f for f in rows if f.get("property") == prop and f.get("status") == "open"}
    opened = open_names(rows)
    devs = [d for d in DEVS_IN_SPEC + ["FormatEntryFromCwd"] if d in opened]
    rep.notes.append("open findings (C12+C13): %s; Format.tla runs the pinned reading for %s and the repaired reading for %s"
                     % (opened or "none", devs or "none", [d for d in DEVS_IN_SPEC if d not in devs] or "none"))
    build_harness(["fmtdrive"])
    mc_cases = design_level(rep, tier, prop, opened)
    cases, meta = build_cases(tier, prop, mc_cases)
    V.log("[%s] %d cases (%d generated by TLC)" % (prop, len(cases), sum(1 for m in meta.values() if m["family"] == "tlc")))
    obs = drive(cases, prop + "-drive")
    recs = []
    for c in cases:
        o = obs[c["id"]]
        recs.append(record(c["id"], o, c["opts"], meta[c["id"]]["model"]))
        if len(c["files"]) > 1 and o["ok"]:
            for f in o["files"]:
                if f["name"] != "main.asm":
                    r = record(c["id"], o, c["opts"], None, fname=f["name"])
                    recs.append(r)
    ncmd = 0
    cmd_meta = {}
    if prop == "C12":
        mos = V.build_mos()
        projs = cmd_cases(tier, prop)
        dcases = [{"id": i + 1, "files": p["files"], "entry": "main.asm", "opts": p["opts"], "asm": False} for i, p in enumerate(projs)]
        dobs = drive(dcases, "C12-cmd-drive")
        for i, p in enumerate(projs):
            o = dobs[i + 1]
            proc, after, others, oafter, outcome = run_mos_format(mos, p, i)
            expect = {f["name"]: f["fmt"] for f in o["files"]} if o["ok"] and not o["panic"] else {}
            rid = 1000000 + i
            files = [{"name": n, "before": p["files"][n], "after": after[n], "expect": expect.get(n, p["files"][n])} for n in sorted(p["files"])]
            w = p["opts"]
            recs.append({"id": rid, "kind": "cmd", "outcome": outcome, "parseError": not o["ok"],
                         "cfgBeyond": w["lm"] + w["cm"] > 65535 or w["indent"] * 16 > 65535,   # a width the layout needs is beyond the limit
                        "panicWidth": "Formatting argument out of range" in proc.stderr,
                         "cwd": p["cwd"], "decoy": p["decoy"], "files": files,
                         "others": [{"name": n, "before": others[n], "after": oafter[n]} for n in sorted(others)]})
            cmd_meta[rid] = {"project": {k: (v if k != "files" else {n: t[:2000] for n, t in v.items()}) for k, v in p.items()}, "exit": proc.returncode,
                             "stdout": proc.stdout[-2000:], "stderr": proc.stderr[-2000:], "after": {n: t[:2000] for n, t in after.items()}, "others_after": oafter}
            ncmd += 1
        rep.notes.append("`mos format` run on %d projects: 1-3 files (every other one with a parse error in one file); label-margin / indent / code-margin "
                         "at 0, 65535 and 65536; started in the project root and in a subdirectory with and without a main.asm of its own" % ncmd)
    nok = sum(1 for r in recs if r.get("kind") == "fmt" and r["ok"])
    if nok < len(cases) // 2:
        raise V.ToolError("too few generated programs parse (%d of %d): generator or tree broken" % (nok, len(cases)))
    verdicts, st = V.judge(os.path.join(SPECDIR, "FormatTrace.tla"), recs, cfg=trace_cfg(prop, devs),
                           tag=prop + "-judge", batch=3000, timeout=3000)
    rep.add_stats(st)
    rep.cov["traces_validated_against_impl"] = nok + ncmd
    rep.cov["evaluations"] = len(recs)
    rep.cov["distinct_nontrivial"] = len({(json.dumps(c["files"], sort_keys=True), json.dumps(c["opts"], sort_keys=True)) for c in cases if obs[c["id"]]["ok"]})
    rep.cov["rule"] = ("(file text, formatter options) pairs that parse without errors: cases printed by TLC from MC_Format (31 statement forms x every gap x "
                       "block/2-line/line comment x option grid), seeded random programs of 1-6 statements (nesting <= 2, comments in every gap, "
                       "options from the grid and random margins), the two golden files and line-level mutations of them under random options; "
                       "distinct = distinct (text, options) pairs")
    rep.cov["families"] = {fam: sum(1 for m in meta.values() if m["family"] == fam) for fam in ("tlc", "random", "width", "golden", "golden-mutated")}
    rep.cov["with_model_tier2"] = sum(1 for r in recs if r.get("hasModel") and r["ok"])
    for c in cases[:2] + cases[len(cases) // 2:len(cases) // 2 + 1]:
        o = obs[c["id"]]
        if o["files"]:
            rep.sample({"options": c["opts"], "source": c["files"]["main.asm"][:400], "formatted": o["files"][0]["fmt"][:400]})
    rep.assumptions += ["token identity = equality of the parser's token trees with spans and trivia removed (plus equality of the texts with "
                        "whitespace, comments and letter case removed)",
                        "comment identity = the comment's lines with leading/trailing blanks of each line removed",
                        "diagnostics are compared by message (positions necessarily change)",
                        "programs that do not parse without errors are outside both properties' antecedents (except for `mos format` leaving them untouched)"]
    byid = {c["id"]: c for c in cases}
    for v in verdicts:
        cid = v["id"]
        if cid in cmd_meta:
            rep.verdict(v, {"kind": "mos format", "why": v.get("why"), **cmd_meta[cid]})
        else:
            c = byid[cid]
            o = obs[cid]
            rep.verdict(v, {"files": c["files"], "options": c["opts"], "family": meta[cid]["family"], "why": v.get("why"),
                            "formatted": {f["name"]: f["fmt"] for f in o["files"]}, "formatted_twice": {f["name"]: f["fmt2"] for f in o["files"]},
                            "judge": "spec/Format/FormatTrace.tla (Prop = %s)" % prop,
                            "reproduce": "write the case as one ndjson line {id, files, entry, opts, asm} and run harness fmtdrive <in> <out>"})
    return rep.finish()
