"""Process-level driver for `mos lsp -p <port>`: LSP over stdio, DAP over TCP (used by C19 and C20).

Only drives and records. Nothing in here decides a property: the recorded message streams are reshaped into
ndjson records and judged by spec/Debugger/*Trace.tla.
"""
import json
import os
import select
import socket
import subprocess
import threading
import time


def free_port():
    s = socket.socket()
    s.bind(("127.0.0.1", 0))
    p = s.getsockname()[1]
    s.close()
    return p


def port_accepts(port, timeout=0.3):
    """True when something accepts TCP connections on 127.0.0.1:port (the connection is closed at once)."""
    try:
        s = socket.create_connection(("127.0.0.1", port), timeout=timeout)
        s.close()
        return True
    except OSError:
        return False


def port_listening(port):
    """Passive check (does not consume an accept()): is there a LISTEN socket on the port in /proc/net/tcp?"""
    want = "%04X" % port
    try:
        for line in open("/proc/net/tcp").read().splitlines()[1:]:
            f = line.split()
            if f[1].endswith(":" + want) and f[3] == "0A":
                return True
    except OSError:
        pass
    return False


def _frame(obj):
    b = json.dumps(obj).encode()
    return b"Content-Length: %d\r\n\r\n" % len(b) + b


class FramedReader:
    """Content-Length framed JSON messages from a file descriptor, with timeouts."""

    def __init__(self, fd):
        self.fd = fd
        self.buf = b""
        self.eof = False
        self.quickack = None

    def _fill(self, timeout):
        r, _, _ = select.select([self.fd], [], [], max(0.0, timeout))
        if not r:
            return False
        try:
            d = os.read(self.fd, 65536)
        except OSError:
            d = b""
        if self.quickack is not None:
            # the adapter writes header and body separately; without this every message costs a 40 ms delayed ACK
            try:
                self.quickack.setsockopt(socket.IPPROTO_TCP, socket.TCP_QUICKACK, 1)
            except OSError:
                pass
        if not d:
            self.eof = True
            return False
        self.buf += d
        return True

    def read(self, timeout):
        """Next message or None (timeout / eof)."""
        end = time.time() + timeout
        while True:
            i = self.buf.find(b"\r\n\r\n")
            if i >= 0:
                n = None
                for h in self.buf[:i].split(b"\r\n"):
                    if h.lower().startswith(b"content-length:"):
                        n = int(h.split(b":")[1])
                if n is not None and len(self.buf) >= i + 4 + n:
                    body = self.buf[i + 4:i + 4 + n]
                    self.buf = self.buf[i + 4 + n:]
                    return json.loads(body)
            if self.eof:
                return None
            if not self._fill(end - time.time()):
                if self.eof or time.time() >= end:
                    return None


class MosLsp:
    """One `mos lsp` process. stderr is collected by a thread (panic messages are data)."""

    def __init__(self, mos_bin, cwd, port, env=None, verbose=False):
        e = dict(os.environ)
        e.pop("RUST_BACKTRACE", None)
        e["RUST_BACKTRACE"] = "0"
        if env:
            e.update({k: str(v) for k, v in env.items()})
        self.port = port
        self.cwd = cwd
        args = [mos_bin, "--no-color", "-e", "Short"] + (["-v", "-v", "-v"] if verbose else []) + ["lsp", "-p", str(port)]
        self.p = subprocess.Popen(args, cwd=cwd, env=e, stdin=subprocess.PIPE, stdout=subprocess.PIPE, stderr=subprocess.PIPE)
        self.rd = FramedReader(self.p.stdout.fileno())
        self.err = []
        self._t = threading.Thread(target=self._drain, daemon=True)
        self._t.start()
        self.nid = 0
        self.t_spawn = time.time()

    def _drain(self):
        try:
            for line in self.p.stderr:
                self.err.append(line.decode("utf-8", "replace"))
        except Exception:
            pass

    def stderr_text(self):
        return "".join(self.err)

    def send(self, obj):
        try:
            self.p.stdin.write(_frame(obj))
            self.p.stdin.flush()
            return True
        except (BrokenPipeError, OSError, ValueError):
            return False

    def request(self, method, params, timeout=20):
        self.nid += 1
        rid = self.nid
        if not self.send({"jsonrpc": "2.0", "id": rid, "method": method, "params": params}):
            return None
        end = time.time() + timeout
        while time.time() < end:
            m = self.rd.read(end - time.time())
            if m is None:
                return None
            if m.get("id") == rid and "method" not in m:
                return m
        return None

    def notify(self, method, params):
        return self.send({"jsonrpc": "2.0", "method": method, "params": params})

    def initialize(self):
        r = self.request("initialize", {"processId": None, "rootUri": "file://" + self.cwd, "capabilities": {}})
        self.notify("initialized", {})
        return r

    def close_stdin(self):
        try:
            self.p.stdin.close()
        except OSError:
            pass

    def wait(self, timeout):
        try:
            return self.p.wait(timeout=timeout)
        except subprocess.TimeoutExpired:
            return None

    def threads(self):
        """Thread states of the live process: [{tid, comm, state, wchan, syscall}] (evidence for 'blocked, not slow')."""
        out = []
        base = "/proc/%d/task" % self.p.pid
        try:
            tids = sorted(os.listdir(base))
        except OSError:
            return out
        for t in tids:
            row = {"tid": int(t), "comm": "", "state": "", "wchan": "", "syscall": ""}
            try:
                st = open("%s/%s/stat" % (base, t)).read()
                row["comm"] = st[st.index("(") + 1:st.rindex(")")]
                row["state"] = st[st.rindex(")") + 2:].split()[0]
            except (OSError, ValueError):
                pass
            for k in ("wchan", "syscall"):
                try:
                    row[k] = open("%s/%s/%s" % (base, t, k)).read().split()[0]
                except (OSError, IndexError):
                    pass
            out.append(row)
        return out

    def kill(self):
        try:
            self.p.kill()
        except OSError:
            pass
        try:
            self.p.wait(timeout=5)
        except Exception:
            pass
        for f in (self.p.stdin, self.p.stdout, self.p.stderr):
            try:
                f.close()
            except Exception:
                pass


class Dap:
    """DAP client on the debug adapter's TCP socket. `log` keeps every message in stream order, with
    the requests interleaved at the moment they were sent: rows {"dir": "out"|"in", "t": seconds, "msg": ...}."""

    def __init__(self, port, connect_timeout=10.0):
        end = time.time() + connect_timeout
        self.sock = None
        while time.time() < end:
            try:
                self.sock = socket.create_connection(("127.0.0.1", port), timeout=1.0)
                break
            except OSError:
                time.sleep(0.02)
        if self.sock is None:
            raise ConnectionError("debug adapter port %d does not accept" % port)
        self.sock.setsockopt(socket.IPPROTO_TCP, socket.TCP_NODELAY, 1)
        self.rd = FramedReader(self.sock.fileno())
        self.rd.quickack = self.sock
        try:
            self.sock.setsockopt(socket.IPPROTO_TCP, socket.TCP_QUICKACK, 1)
        except OSError:
            pass
        self.seq = 0
        self.log = []
        self.t0 = time.time()

    def _rec(self, d, m):
        self.log.append({"dir": d, "t": round(time.time() - self.t0, 6), "msg": m})

    def send(self, command, arguments=None):
        self.seq += 1
        m = {"seq": self.seq, "type": "request", "command": command, "arguments": arguments}
        self._rec("out", m)
        try:
            self.sock.sendall(_frame(m))
        except OSError:
            return None
        return self.seq

    def send_raw(self, obj):
        self._rec("out", obj)
        try:
            self.sock.sendall(_frame(obj))
        except OSError:
            pass

    def pump(self, until, timeout):
        """Read messages (all are logged) until until(msg) is true; returns that message or None on timeout/eof."""
        end = time.time() + timeout
        while True:
            m = self.rd.read(end - time.time())
            if m is None:
                return None
            self._rec("in", m)
            if until(m):
                return m
            if time.time() >= end:
                return None

    def request(self, command, arguments=None, timeout=10.0):
        s = self.send(command, arguments)
        if s is None:
            return None
        return self.pump(lambda m: m.get("type") == "response" and m.get("request_seq") == s, timeout)

    def wait_event(self, names, timeout):
        names = set(names)
        return self.pump(lambda m: m.get("type") == "event" and m.get("event") in names, timeout)

    def drain(self, timeout=0.05):
        self.pump(lambda m: False, timeout)

    def close(self):
        try:
            self.sock.close()
        except OSError:
            pass


def write_project(d, source, entry="main.asm"):
    os.makedirs(d, exist_ok=True)
    with open(os.path.join(d, "mos.toml"), "w") as f:
        f.write('[build]\nentry = "%s"\n' % entry)
    with open(os.path.join(d, entry), "w") as f:
        f.write(source)
    return os.path.join(d, entry)


def dap_handshake(dap, workspace, test_name, bp_lines=None, source_path=None, stop_on_entry_bp=False):
    """initialize -> launch -> (setBreakpoints) -> configurationDone. Lines are 1-based. Returns False on failure."""
    r = dap.request("initialize", {"adapterID": "mos", "linesStartAt1": True, "columnsStartAt1": True})
    if not r or not r.get("success"):
        return False
    r = dap.request("launch", {"workspace": workspace, "testRunner": {"testCaseName": test_name}})
    if not r or not r.get("success"):
        return False
    if bp_lines is not None:
        r = dap.request("setBreakpoints", {"source": {"path": source_path}, "breakpoints": [{"line": l} for l in bp_lines]})
        if not r or not r.get("success"):
            return False
    r = dap.request("configurationDone", None)
    return bool(r and r.get("success"))


# ------------------------------------------------------------------ scripted debug sessions (C19)

STEP_CMDS = ("next", "stepIn", "stepOut")
EVAL_EXPR = "cpu.y * 16 + cpu.x"


class ScriptSession:
    """Runs one client script against a debug adapter port, the way Debugger.tla's client behaves:
    pause/wait only while it believes the machine runs, continue/step/inspect only after a stopped event;
    after `continue` it waits for the `continued` event, after a step for the response and then a stopped event."""

    def __init__(self, port, workspace, source_path, test_name="t", timeout=4.0, lines_default=False, bp_column=None):
        self.bp_column = bp_column               # SourceBreakpoint.column sent with every breakpoint (1-based), None = no column
        self.lines_default = lines_default       # initialize without linesStartAt1/columnsStartAt1 (the protocol's default is true)
        self.dap = Dap(port)
        self.ws, self.src, self.test, self.timeout = workspace, source_path, test_name, timeout
        self.view = "init"
        self.failed = None
        self.cur = 0
        self.probe_seqs = set()
        self.alive_marks = []

    def _find(self, names, start):
        for k in range(start, len(self.dap.log)):
            row = self.dap.log[k]
            if row["dir"] == "in" and row["msg"].get("type") == "event" and row["msg"].get("event") in names:
                return k
        return None

    def _ev(self, names, start):
        """First event with one of the names at or after log index `start` (it may have arrived while an earlier
        response was awaited); waits for it otherwise. Moves the cursor behind it."""
        k = self._find(names, start)
        if k is None:
            m = self.dap.wait_event(names, self.timeout)
            if m is None:
                return None
            k = len(self.dap.log) - 1
        self.cur = k + 1
        return self.dap.log[k]["msg"]

    def sync(self, gap):
        """A breakpoint or the end of the test may have been reported while we were busy with another request."""
        if self.view == "running":
            self.dap.drain(0.0)
            k = self._find(("stopped", "terminated"), self.cur)
            if k is not None:
                self.cur = k + 1
                self.after_stop_or_end(self.dap.log[k]["msg"], gap)

    def set_bps(self, lines, lib=None):
        """lines >= 1000 belong to the second source file (lib.asm next to the entry): one request per file.
        An empty list addresses the entry file unless lib is True."""
        groups = {}
        for l in lines:
            groups.setdefault(l >= 1000, []).append(l % 1000)
        if not groups:
            groups[bool(lib)] = []
        for is_lib, ls in sorted(groups.items()):
            path = os.path.join(os.path.dirname(self.src), "lib.asm") if is_lib else self.src
            bps = [{"line": l} if self.bp_column is None else {"line": l, "column": self.bp_column} for l in ls]
            r = self.dap.request("setBreakpoints", {"source": {"path": path}, "breakpoints": bps}, self.timeout)
            if not r or not r.get("success"):
                self.failed = "setBreakpoints failed"

    def snapshots(self, gap):
        for i in range(2):
            self.dap.request("stackTrace", {"threadId": 1}, self.timeout)
            self.dap.request("variables", {"variablesReference": 1}, self.timeout)
            self.dap.request("evaluate", {"expression": "*"}, self.timeout)
            self.dap.request("evaluate", {"expression": EVAL_EXPR}, self.timeout)
            if i == 0 and gap > 0:
                time.sleep(gap)

    def after_stop_or_end(self, m, gap):
        if m is None:
            self.view = "lost"
            self.failed = self.failed or "no stopped/terminated event within the bound"
        elif m.get("event") == "terminated":
            self.view = "terminated"
        else:
            self.view = "stopped"
            self.snapshots(gap)

    def run(self, bps0, steps):
        d = self.dap
        init = {"adapterID": "mos"} if self.lines_default else {"adapterID": "mos", "linesStartAt1": True, "columnsStartAt1": True}
        ok = (d.request("initialize", init, self.timeout) or {}).get("success")
        ok = ok and (d.request("launch", {"workspace": self.ws, "testRunner": {"testCaseName": self.test}}, self.timeout) or {}).get("success")
        if not ok:
            self.failed = "initialize/launch failed"
            return
        self.set_bps(bps0)
        r = d.request("configurationDone", None, self.timeout)
        if not r or not r.get("success"):
            self.failed = "configurationDone failed"
            return
        self.view = "running"
        self.cur = len(d.log)
        for st in steps:
            if self.failed or self.view in ("terminated", "lost"):
                break
            a, gap = st["a"], st.get("gap", 0.0)
            if st.get("delay", 0) > 0:
                time.sleep(st["delay"])
            self.sync(gap)
            if self.view in ("terminated", "lost"):
                break
            mark = len(d.log)
            if a == "setBps":
                self.set_bps(st["lines"])
            elif self.view == "running" and a == "wait":
                self.after_stop_or_end(self._ev(("stopped", "terminated"), self.cur), gap)
            elif self.view == "running" and a == "pause":
                if not d.request("pause", {"threadId": 1}, self.timeout):
                    self.failed = "no response to pause"
                    break
                self.after_stop_or_end(self._ev(("stopped", "terminated"), self.cur), gap)
            elif self.view == "stopped" and a == "continue":
                r = d.request("continue", {"threadId": 1}, self.timeout)
                if not r or self._ev(("continued",), mark) is None:
                    self.failed = "no continued event"
                    break
                self.view = "running"
            elif self.view == "running" and a == "runstep":
                # a step although no stop was reported (clients do not do that; the property quantifies over any interleaving)
                if not d.request("stepIn", {"threadId": 1}, self.timeout):
                    self.failed = "no response to stepIn"
                    break
                self.after_stop_or_end(self._ev(("stopped", "terminated"), mark), gap)
            elif self.view == "stopped" and a in STEP_CMDS:
                if not d.request(a, {"threadId": 1}, self.timeout):
                    self.failed = "no response to " + a
                    break
                self.after_stop_or_end(self._ev(("stopped", "terminated"), mark), gap)
            elif self.view == "stopped" and a == "inspect":
                self.snapshots(gap)
            elif self.view == "stopped" and a.startswith("malformed:"):
                # a request outside the happy path, then a plain one: is the adapter still there?
                kind = a.split(":", 1)[1]
                if kind == "unknown_command":
                    d.request("frobnicate", {}, 1.5)
                elif kind == "variables_reference":
                    d.request("variables", {"variablesReference": 99}, 1.5)
                elif kind == "setbps_no_path":
                    d.request("setBreakpoints", {"source": {"name": "main.asm"}, "breakpoints": [{"line": 3}]}, 1.5)
                elif kind == "setbps_line0":
                    d.request("setBreakpoints", {"source": {"path": self.src}, "breakpoints": [{"line": 0}]}, 1.5)
                    d.request("setBreakpoints", {"source": {"path": self.src}, "breakpoints": []}, 1.5)
                elif kind == "completions_end":
                    d.request("completions", {"text": "cpu.", "column": 5}, 1.5)
                elif kind == "event_message":
                    d.send_raw({"seq": 99, "type": "event", "event": "initialized"})
                    time.sleep(0.1)
                self.alive_marks.append((len(d.log), kind))
                if d.request("threads", None, 1.5) is None:
                    self.view = "lost"
                    break
            elif self.view == "stopped" and a == "evalmem":
                # memory reads outside the program image, up to the very end of the address space
                for e in ("ram($fff0)", "ram16($fffe)", "ram16($ffff)"):
                    if d.request("evaluate", {"expression": e}, 1.5) is None:
                        self.view = "lost"        # the observation row says so; the judge decides what that means
                        break
            elif self.view == "running" and a == "probe":
                # Registers of the running machine: an instant of the run at which everything installed so far is in force
                self.probe_seqs.add(d.seq + 1)
                d.request("variables", {"variablesReference": 1}, self.timeout)
        d.request("disconnect", {}, self.timeout)
        d.close()


def observations(log, probe_seqs=(), alive_marks=()):
    """Reshape a Dap.log into the observation rows DebuggerTrace.tla reads (stream order, no judging).
    probe_seqs: request numbers of `variables` requests sent while the machine was believed to run."""
    out, reqs, frame, regs, memreq, star = [], {}, None, None, {}, -1
    alive = {k: kind for k, kind in alive_marks}          # log index of the `threads` request that follows a malformed request
    pending_alive = {}

    def num(s):
        try:
            return int(str(s), 0) if not str(s).startswith("$") else int(str(s)[1:], 16)
        except ValueError:
            return -1
    for idx, row in enumerate(log):
        m = row["msg"]
        if row["dir"] == "out" and m.get("type") != "request":
            continue
        if row["dir"] == "out":
            reqs[m["seq"]] = m
            c = m["command"]
            if idx in alive:
                o = {"k": "alive", "after": alive[idx], "answered": False}
                pending_alive[m["seq"]] = o
                out.append(o)
            if c == "setBreakpoints" and (m["arguments"].get("source") or {}).get("path") and all(b.get("line", 0) > 0 for b in m["arguments"]["breakpoints"]):
                lib = m["arguments"]["source"]["path"].endswith("lib.asm")
                out.append({"k": "setbps", "file": 1 if lib else 0, "lines": [b["line"] + (1000 if lib else 0) for b in m["arguments"]["breakpoints"]]})
            elif c == "configurationDone":
                out.append({"k": "launch"})
            elif c in ("continue", "pause") + STEP_CMDS:
                out.append({"k": "req", "c": c})
            elif c == "evaluate" and m["arguments"]["expression"].startswith("ram"):
                e = m["arguments"]["expression"]
                row = {"k": "evalmem", "width": 2 if e.startswith("ram16") else 1, "addr": int(e[e.index("$") + 1:e.index(")")], 16),
                       "answered": False, "ok": False, "val": -1}
                memreq[m["seq"]] = row
                out.append(row)
        elif m.get("type") == "event":
            if m.get("event") in ("stopped", "continued", "terminated"):
                out.append({"k": "ev", "e": m["event"], "reason": (m.get("body") or {}).get("reason", "")})
        elif m.get("type") == "response":
            c = m.get("command")
            if m.get("request_seq") in pending_alive:
                pending_alive[m["request_seq"]]["answered"] = True
            if c == "stackTrace":
                fr = ((m.get("body") or {}).get("stackFrames") or []) if m.get("success") else []
                lib = bool(fr) and str(((fr[0].get("source") or {}).get("path")) or "").endswith("lib.asm")
                frame = {"hasFrame": bool(fr), "line": (fr[0]["line"] + (1000 if lib else 0)) if fr else 0, "endLine": fr[0].get("endLine", 0) if fr else 0}
            elif c == "variables":
                vs = {v["name"]: num(v["value"]) for v in ((m.get("body") or {}).get("variables") or [])} if m.get("success") else {}
                regs = {"a": vs.get("A", -1), "x": vs.get("X", -1), "y": vs.get("Y", -1), "cyc": vs.get("CYC", -1)}
                if m.get("request_seq") in probe_seqs:
                    o = {"k": "probe"}
                    o.update(regs)
                    out.append(o)
                    regs = None
            elif c == "evaluate" and m.get("request_seq") in memreq:
                memreq[m["request_seq"]].update({"answered": True, "ok": bool(m.get("success")),
                                                 "val": num((m.get("body") or {}).get("result", "")) if m.get("success") else -1})
            elif c == "evaluate" and (reqs.get(m.get("request_seq")) or {}).get("arguments", {}).get("expression") == "*":
                star = num((m.get("body") or {}).get("result", "")) if m.get("success") else -1
            elif c == "evaluate":
                ev = num((m.get("body") or {}).get("result", "")) if m.get("success") else -1
                if frame is not None and regs is not None:
                    o = {"k": "snap", "ev": ev, "star": star}
                    o.update(frame)
                    o.update(regs)
                    out.append(o)
                frame = regs = None
    return out


def split_hook_log(path):
    """Hook log of one mos process -> list of per-debug-session event lists (adapter-level events only).
    Session boundaries are the `accepted` life events of the debug server thread; machine-thread events are
    attributed to the session in which their thread first appeared (an old machine thread may log one last
    iteration after the next session began)."""
    sessions, owner, cur = [], {}, None
    if not os.path.exists(path):
        return sessions
    for line in open(path):
        line = line.strip()
        if not line:
            continue
        try:
            e = json.loads(line)
        except ValueError:
            continue
        if e["ev"] == "life":
            if e["what"] == "accepted":
                sessions.append([])
                cur = len(sessions) - 1
            continue
        if cur is None:
            continue
        if e["ev"].startswith("m_"):
            k = owner.setdefault(e["th"], cur)
        else:
            k = cur
        e = dict(e)
        e.pop("th", None)
        sessions[k].append(e)
    return sessions


# ------------------------------------------------------------------ findings (which reading of the specs is pinned)

def findings_view(props, verif_dir):
    """Finding rows for the given properties: the merged file (known_findings.jsonl, or the file named by VERIF_FINDINGS
    for trial runs) wins; rows of checks/<ID>/findings.jsonl that it does not have yet are added."""
    path = os.environ.get("VERIF_FINDINGS") or os.path.join(verif_dir, "known_findings.jsonl")
    rows = []
    if os.path.exists(path):
        for line in open(path):
            line = line.strip()
            if line and not line.startswith("#"):
                f = json.loads(line)
                if f.get("property") in props:
                    rows.append(f)
    have = {(f["property"], f["deviation"]) for f in rows}
    for prop in props:
        own = os.path.join(verif_dir, "checks", prop, "findings.jsonl")
        if os.path.exists(own):
            for line in open(own):
                if line.strip():
                    f = json.loads(line)
                    if (f["property"], f["deviation"]) not in have:
                        rows.append(f)
    return rows


def open_rows(rows, prop):
    """deviation name -> row, for the findings of prop that are still open (their deviation stays pinned in the spec)"""
    return {f["deviation"]: f for f in rows if f.get("property") == prop and f.get("status") == "open"}


def tla_set(names):
    return "{" + ", ".join('"%s"' % n for n in sorted(names)) + "}"
