"""Driver for `mos test` (property C18): project ASTs in the shape spec/Cpu/TestRunner.tla reads, their rendering to
mos source text, a seeded generator of test projects, running the binary and reshaping stdout / the cpu_step hook trace
into the record spec/Cpu/TestRunnerTrace.tla judges.  Nothing in here decides a verdict: the small register tracker of
the generator only steers which assertions are *likely* true or false; what they are is decided by the TLA+ side.
"""
import json
import os
import re
import subprocess

# ------------------------------------------------------------------ expression trees (Expr.tla shapes + ram/ram16)


def num(n, radix="dec", lz=0):
    return {"k": "num", "n": n, "radix": radix, "lz": lz}


def ident(path, mod=""):
    if isinstance(path, str):
        path = path.split(".")
    return {"k": "id", "name": ".".join(path), "path": list(path), "mod": mod}


def pc():
    return {"k": "pc"}


def binop(op, l, r):
    return {"k": "bin", "op": op, "l": l, "r": r}


def par(e):
    return {"k": "par", "e": e}


def fac(e, nt=False, ng=False):
    return {"k": "fac", "nt": nt, "ng": ng, "e": e}


def ram(e, word=False):
    return {"k": "ram16" if word else "ram", "e": e}


MUL = {"*", "/", "%"}
ADD = {"+", "-"}


def render_expr(t):
    k = t["k"]
    if k == "num":
        n, radix, lz = t["n"], t.get("radix", "dec"), t.get("lz", 0)
        return "0" * lz + str(n) if radix == "dec" else ("$" + "0" * lz + "%x" % n if radix == "hex" else "%" + "0" * lz + bin(n)[2:])
    if k == "id":
        return t["mod"] + ".".join(t["path"])
    if k == "pc":
        return "*"
    if k == "par":
        return "(" + render_expr(t["e"]) + ")"
    if k == "fac":
        return ("!" if t["nt"] else "") + ("-" if t["ng"] else "") + render_expr(t["e"])
    if k in ("ram", "ram16"):
        return k + "(" + render_expr(t["e"]) + ")"
    if k == "bin":
        op = t["op"]

        def side(x, left):
            s = render_expr(x)
            if x["k"] == "bin":
                xo = x["op"]
                tighter = xo in MUL and op in ADD
                same = (xo in MUL and op in MUL) or (xo in ADD and op in ADD) or xo == op
                if not (tighter or (left and same)):
                    s = "(" + s + ")"
            return s
        return side(t["l"], True) + " " + op + " " + side(t["r"], False)
    raise ValueError(k)


# ------------------------------------------------------------------ statements

FORM_TMPL = {
    "imp": "{mn}", "imm": "{mn} #{e}", "dir": "{mn} {e}", "dirx": "{mn} {e},x", "diry": "{mn} {e},y",
    "indx": "{mn} ({e},x)", "indy": "{mn} ({e}),y", "ind": "{mn} ({e})",
}


def insn(mn, form="imp", e=None):
    return {"k": "insn", "mn": mn, "form": form, "e": e if e is not None else num(0)}


def label(name, body=None):
    return {"k": "label", "name": name, "hasBody": body is not None, "body": body or []}


def braces(body):
    return {"k": "braces", "sid": "", "body": body}


def const(name, e):
    return {"k": "const", "name": name, "e": e}


def data(w, es):
    return {"k": "data", "w": w, "es": es}


def loop(n, body):
    return {"k": "loop", "n": n, "sid": "", "body": body}


def assert_(e, msg=None):
    return {"k": "assert", "aid": 0, "e": e, "hasMsg": msg is not None, "msg": msg or ""}


def test(name, body):
    return {"k": "test", "name": name, "body": body}


def useseg(name, body):
    return {"k": "useseg", "name": name, "body": body}


def setpc(e):
    return {"k": "setpc", "e": e}


WNAME = {1: ".byte", 2: ".word"}


def number(prj):
    """Give every assertion a unique id and every anonymous scope a unique name (both internal to the specification)."""
    cnt = {"a": 0, "s": 0}

    def go(ss):
        for st in ss:
            if st["k"] == "assert":
                cnt["a"] += 1
                st["aid"] = cnt["a"]
            if st["k"] in ("braces", "loop"):
                cnt["s"] += 1
                st["sid"] = "$anon%d" % cnt["s"]
            if "body" in st:
                go(st["body"])
    go(prj["items"])
    for f in prj.setdefault("files", []):
        go(f["items"])
    return prj


def render(prj):
    """-> (text, lines, extra): text of the entry file, lines = [{aid, line, col, text}] locating every assertion's expression
    (1-based, in the file that contains it), extra = {file name: text} of the importable files."""
    prj.setdefault("files", [])
    for d in prj["segdefs"]:
        d.setdefault("pc", d["start"])
        d.setdefault("write", True)
        d.setdefault("size", 0)
    outs, lines = {}, []
    out = []
    banks = []
    for d in prj["segdefs"]:
        if d["bank"] not in banks:
            banks.append(d["bank"])
    for b in banks:
        size = max(d["size"] for d in prj["segdefs"] if d["bank"] == b)
        out.append('.define bank { name = "%s"%s }' % (b, " size = $%x fill = 0" % size if size else ""))
    for d in prj["segdefs"]:
        out.append('.define segment { name = "%s" start = $%04x%s%s bank = "%s" }'
                   % (d["name"], d["start"], " pc = $%04x" % d["pc"] if d["pc"] != d["start"] else "", "" if d["write"] else " write = false", d["bank"]))

    def go(ss, ind):
        pad = "    " * ind
        for st in ss:
            k = st["k"]
            if k == "insn":
                out.append(pad + FORM_TMPL[st["form"]].format(mn=st["mn"], e=render_expr(st["e"])))
            elif k == "label":
                if st["hasBody"]:
                    out.append(pad + st["name"] + ": {")
                    go(st["body"], ind + 1)
                    out.append(pad + "}")
                else:
                    out.append(pad + st["name"] + ":")
            elif k == "braces":
                out.append(pad + "{")
                go(st["body"], ind + 1)
                out.append(pad + "}")
            elif k == "const":
                out.append(pad + ".const " + st["name"] + " = " + render_expr(st["e"]))
            elif k == "var":
                out.append(pad + ".var " + st["name"] + " = " + render_expr(st["e"]))
            elif k == "setpc":
                out.append(pad + "* = " + render_expr(st["e"]))
            elif k == "iftest":
                out.append(pad + ".if defined(TEST) {")
                go(st["body"], ind + 1)
                out.append(pad + "}")
            elif k == "import":
                out.append(pad + '.import * from "%s"' % st["file"])
            elif k == "data":
                out.append(pad + WNAME[st["w"]] + " " + ", ".join(render_expr(e) for e in st["es"]))
            elif k == "loop":
                out.append(pad + ".loop %d {" % st["n"])
                go(st["body"], ind + 1)
                out.append(pad + "}")
            elif k == "assert":
                text = render_expr(st["e"])
                lines.append({"aid": st["aid"], "line": len(out) + 1, "col": len(pad) + len(".assert ") + 1, "text": text})
                out.append(pad + ".assert " + text + (' "%s"' % st["msg"] if st["hasMsg"] else ""))
            elif k == "test":
                out.append(pad + '.test "%s" {' % st["name"])
                go(st["body"], ind + 1)
                out.append(pad + "}")
            elif k == "useseg":
                out.append(pad + '.segment "%s" {' % st["name"])
                go(st["body"], ind + 1)
                out.append(pad + "}")
            else:
                raise ValueError(k)
    go(prj["items"], 0)
    text = "\n".join(out) + "\n"
    for f in prj["files"]:
        del out[:]
        go(f["items"], 0)
        outs[f["name"]] = "\n".join(out) + "\n"
    return text, lines, outs


def from_tlc_case(line):
    """A `<<"CASE", "<json>">>` line printed by MC_TestRunner -> dict."""
    m = re.match(r'^<<"CASE", (".*")>>$', line)
    return json.loads(json.loads(m.group(1)))


# ------------------------------------------------------------------ running `mos test`

RE_TEST = re.compile(r"^test '(.*)' \.\.\. (ok|failed) \((\d+) cycles\)$")
RE_DIAG = re.compile(r"^(.*?):(\d+):(\d+): error: (.*)$")
RE_CPU = re.compile(r"^\* = \$([0-9A-F]{4}), SP = \$([0-9A-F]{2}), flags = (.{8}), A = \$([0-9A-F]{2}), X = \$([0-9A-F]{2}), Y = \$([0-9A-F]{2})$")
RE_RESULT = re.compile(r"^test result: (\w+)\. (\d+) passed; (\d+) failed$")
FLAGBITS = [128, 64, 32, 16, 8, 4, 2, 1]


def parse_output(stdout, stderr):
    """`mos test` logs the per-test lines, the register line and the summary to stderr and prints the diagnostics
    (one per failed test, in the order of the `test:` entries) to stdout."""
    obs = {"tests": [], "failures": [], "passed": -1, "failed": -1, "result": "", "summary": False}
    cur = None
    for line in stderr.splitlines():
        m = RE_TEST.match(line)
        if m:
            obs["tests"].append({"name": norm_name(m.group(1)), "verdict": m.group(2)})
            continue
        if line.startswith("test: "):
            cur = {"name": norm_name(line[6:]), "line": 0, "col": 0, "msg": "", "pc": -1, "sp": -1, "a": -1, "x": -1, "y": -1, "p": 0}
            obs["failures"].append(cur)
            continue
        m = RE_CPU.match(line)
        if m and cur is not None:
            cur["pc"], cur["sp"] = int(m.group(1), 16), int(m.group(2), 16)
            cur["p"] = sum(b for b, ch in zip(FLAGBITS, m.group(3)) if ch != "-")
            cur["a"], cur["x"], cur["y"] = int(m.group(4), 16), int(m.group(5), 16), int(m.group(6), 16)
            continue
        m = RE_RESULT.match(line)
        if m:
            obs["result"], obs["passed"], obs["failed"], obs["summary"] = m.group(1), int(m.group(2)), int(m.group(3)), True
    diags = [m for m in (RE_DIAG.match(l) for l in stdout.splitlines()) if m]
    for f, m in zip(obs["failures"], diags):
        f["line"], f["col"], f["msg"] = int(m.group(2)), int(m.group(3)), m.group(4)
    obs["ndiags"] = len(diags)
    # the assembler rejected the project: nothing was run (outside C18; the judge only notes it)
    obs["buildFailed"] = (not obs["tests"]) and (not obs["summary"]) and (len(diags) > 0 or "error:" in stdout) and "panicked at" not in stderr
    # tests were run, then an error ended the run before the summary
    obs["aborted"] = bool(obs["tests"]) and (not obs["summary"]) and "error:" in stdout and "panicked at" not in stderr
    return obs


def parse_trace(path):
    runs, cur = [], None
    if not os.path.exists(path):
        return runs
    for line in open(path):
        line = line.strip()
        if not line:
            continue
        ev = json.loads(line)
        if ev["ev"] == "start":
            base = ev["base"]
            cur = {"test": norm_name(ev["test"]), "pc": ev["pc"], "image": [{"a": base + i, "b": b} for i, b in enumerate(ev["data"]) if b != 0],
                   "steps": [], "end": "none"}
            runs.append(cur)
        elif ev["ev"] == "step" and cur is not None:
            cur["steps"].append({"pc": ev["pc"], "a": ev["a"], "x": ev["x"], "y": ev["y"], "sp": ev["sp"], "p": ev["p"],
                                 "fired": [{"line": f["line"], "col": f["col"]} for f in ev["fired"]]})
        elif ev["ev"] in ("pass", "fail") and cur is not None:
            cur["end"] = ev["ev"]
    return runs


IMPORT_SCOPE = re.compile(r"\$scope_\d+")


def norm_name(name):
    """The scope an import creates is anonymous (`$scope_<n>`); the specification calls it `$import`."""
    return IMPORT_SCOPE.sub("$import", name)


def run_project(mos, d, text, timeout=10, extra=None):
    """Write the project into directory d, run `mos test` there, return (obs, runs, raw)."""
    os.makedirs(d, exist_ok=True)
    with open(os.path.join(d, "mos.toml"), "w") as f:
        f.write('[build]\nentry = "main.asm"\n')
    with open(os.path.join(d, "main.asm"), "w") as f:
        f.write(text)
    for name, t in (extra or {}).items():
        with open(os.path.join(d, name), "w") as f:
            f.write(t)
    tr = os.path.join(d, "trace.ndjson")
    if os.path.exists(tr):
        os.remove(tr)
    env = dict(os.environ)
    env["MOS_VERIF_CPU_TRACE"] = tr
    env["RUST_BACKTRACE"] = "0"
    hung = False
    try:
        p = subprocess.run([mos, "--no-color", "-e", "Short", "test"], cwd=d, env=env, capture_output=True, text=True, timeout=timeout)
        rc, so, se = p.returncode, p.stdout, p.stderr
    except subprocess.TimeoutExpired as e:
        hung, rc = True, -1
        so = e.stdout.decode() if isinstance(e.stdout, bytes) else (e.stdout or "")
        se = e.stderr.decode() if isinstance(e.stderr, bytes) else (e.stderr or "")
    obs = parse_output(so, se)
    # a panic of the code under test is data: classify the message (text only, no verdict)
    obs["panic"] = "none"
    if "panicked at" in se:
        obs["panic"] = ("slice" if "out of range for slice" in se else
                        "overflow" if (("attempt to add with overflow" in se or "attempt to subtract with overflow" in se)
                                       and "emulator_6502" in se) else "other")
    obs["exit"] = rc
    obs["hung"] = hung
    runs = [] if hung else parse_trace(tr)
    return obs, runs, {"stdout": so[-4000:], "stderr": se[-4000:], "exit": rc}


def record(cid, prj, lines, obs, runs, use_trace=True):
    return {"id": cid, "prj": prj, "lines": lines, "obs": obs, "hasTrace": bool(use_trace and runs), "runs": runs if use_trace else []}


# ------------------------------------------------------------------ seeded generator of test projects

class Gen:
    """Random test projects beyond the model-checking bound: counted loops, forward skips, subroutines (inside and
    outside the test, called repeatedly), scopes with shadowed constants, assembly-time loops with `index`, stores
    and ram()/ram16(), flags, the pc, messages, unevaluable assertions, several tests per file, two banks that
    overlap in the address space."""

    def __init__(self, rnd, long_runs=1):
        self.r = rnd
        self.n = 0
        self.long_runs = long_runs      # 0: no long loops, 1: up to ~2000 instructions, 2: up to ~15000, 3: up to ~50000
        self.vectors = []               # data words (jmp (vec) targets) to place behind the brk of the test being built

    def fresh(self, p):
        self.n += 1
        return "%s%d" % (p, self.n)

    def lit(self, v):
        c = self.r.random()
        return num(v, "hex") if c < 0.4 else (num(v, "bin") if c < 0.5 else num(v))

    # --- assertions -------------------------------------------------------------
    def reg_assert(self, kn, want_true):
        r = self.r
        regs = [x for x in ("a", "x", "y") if kn.get(x) is not None]
        cands = []
        if regs:
            g = r.choice(regs)
            v = kn[g]
            e = ident("cpu." + g)
            cands += [binop("==", e, self.lit(v if want_true else (v + r.choice([1, 255, 128])) % 256)),
                      binop("!=" if want_true else "==", e, self.lit((v + 1) % 256)),
                      binop("<=" if want_true else ">", e, self.lit(v))]
        for a, v in kn.get("mem", {}).items():
            if v is not None:
                addr = a if isinstance(a, dict) else self.lit(a)
                cands.append(binop("==", ram(addr), self.lit(v if want_true else (v + 1) % 256)))
        mem = kn.get("mem", {})
        for a in list(mem):
            if isinstance(a, int) and mem.get(a) is not None and mem.get(a + 1) is not None:
                w = mem[a] + 256 * mem[a + 1]
                cands.append(binop("==", ram(self.lit(a), word=True), self.lit(w if want_true else (w + 256) % 65536)))
        if kn.get("z") is not None:
            z = ident("cpu.flags.zero")
            cands.append(z if kn["z"] == want_true else fac(z, nt=True))
        if kn.get("n") is not None:
            f = ident("cpu.flags.negative")
            cands.append(f if kn["n"] == want_true else fac(f, nt=True))
        if kn.get("c") is not None:
            f = ident("cpu.flags.carry")
            cands.append(f if kn["c"] == want_true else fac(f, nt=True))
        for cname, cv in kn.get("consts", {}).items():
            cands.append(binop("==" if want_true else "!=", ident(cname), self.lit(cv)))
        g = r.choice(["a", "x", "y", "sp"])
        cands.append(binop("<" if want_true else ">=", ident("cpu." + g), num(256)))
        cands.append(binop(">=" if want_true else "<", pc(), num(0x1000, "hex")))
        if r.random() < 0.03:
            return binop("==", ident(self.fresh("nosuch")), num(1))
        e = r.choice(cands)
        if r.random() < 0.15:
            e2 = r.choice(cands)
            e = binop("&&", par(e), par(e2)) if want_true else binop("||", par(e), par(e2))
        return e

    def gen_assert(self, kn, p_true=0.9):
        e = self.reg_assert(kn, self.r.random() < p_true)
        return assert_(e, self.fresh("m") if self.r.random() < 0.5 else None)

    # --- straight-line instructions with a light tracker of what the generator knows ---
    def simple(self, kn, keep=()):
        r = self.r
        c = r.randrange(12)
        if c <= 2:
            g = r.choice([x for x in "axy" if x not in keep] or ["a"])
            v = r.choice([0, 1, 2, 5, 127, 128, 255, r.randrange(256)])
            kn[g] = v
            kn["z"], kn["n"] = v == 0, v >= 128
            return [insn("ld" + g, "imm", self.lit(v))]
        if c == 3:
            g = r.choice("axy")
            a = r.choice([16, 17, 18, 0x0200])
            kn.setdefault("mem", {})[a] = kn.get(g)
            return [insn("st" + g, "dir", self.lit(a))]
        if c == 4:
            mn, s, d = r.choice([("tax", "a", "x"), ("tay", "a", "y"), ("txa", "x", "a"), ("tya", "y", "a")])
            if d in keep:
                return [insn("nop")]
            kn[d] = kn.get(s)
            kn["z"] = kn["n"] = None
            if kn[d] is not None:
                kn["z"], kn["n"] = kn[d] == 0, kn[d] >= 128
            return [insn(mn)]
        if c == 5:
            mn, g, dv = r.choice([("inx", "x", 1), ("iny", "y", 1), ("dex", "x", 255), ("dey", "y", 255)])
            if g in keep:
                return [insn("nop")]
            if kn.get(g) is not None:
                kn[g] = (kn[g] + dv) % 256
                kn["z"], kn["n"] = kn[g] == 0, kn[g] >= 128
            else:
                kn["z"] = kn["n"] = None
            return [insn(mn)]
        if c == 6:
            a = r.choice([16, 17, 18])
            mn = r.choice(["inc", "dec"])
            m = kn.setdefault("mem", {})
            if m.get(a) is not None:
                m[a] = (m[a] + (1 if mn == "inc" else 255)) % 256
                kn["z"], kn["n"] = m[a] == 0, m[a] >= 128
            else:
                kn["z"] = kn["n"] = None
            return [insn(mn, "dir", self.lit(a))]
        if c == 7 and "a" not in keep:
            mn = r.choice(["and", "ora", "eor"])
            v = r.randrange(256)
            if kn.get("a") is not None:
                kn["a"] = {"and": kn["a"] & v, "ora": kn["a"] | v, "eor": kn["a"] ^ v}[mn]
                kn["z"], kn["n"] = kn["a"] == 0, kn["a"] >= 128
            else:
                kn["z"] = kn["n"] = None
            return [insn(mn, "imm", self.lit(v))]
        if c == 8 and "a" not in keep:
            v = r.choice([1, 2, 127, 128, 255, r.randrange(256)])
            sub = r.random() < 0.4
            if kn.get("a") is not None:
                t = kn["a"] - v if sub else kn["a"] + v
                kn["c"] = (t >= 0) if sub else (t > 255)
                kn["a"] = t % 256
                kn["z"], kn["n"] = kn["a"] == 0, kn["a"] >= 128
            else:
                kn["c"] = kn["z"] = kn["n"] = None
            return [insn("sec" if sub else "clc"), insn("sbc" if sub else "adc", "imm", self.lit(v))]
        if c == 9:
            g = r.choice(["a", "x", "y"])
            v = r.randrange(256)
            if kn.get(g) is not None:
                kn["c"], kn["z"], kn["n"] = kn[g] >= v, kn[g] == v, ((kn[g] - v) % 256) >= 128
            else:
                kn["c"] = kn["z"] = kn["n"] = None
            return [insn({"a": "cmp", "x": "cpx", "y": "cpy"}[g], "imm", self.lit(v))]
        if c == 10 and "a" not in keep:
            mn = r.choice(["asl", "lsr", "rol", "ror"])
            kn["a"] = kn["c"] = kn["z"] = kn["n"] = None
            return [insn(mn)]
        if c == 11 and "a" not in keep:
            kn["a"] = kn["z"] = kn["n"] = None
            return [insn("pha"), insn("lda", "imm", self.lit(r.randrange(256))), insn("pla")]
        return [insn("nop")]

    @staticmethod
    def forget(kn):
        consts = kn.get("consts", {})
        kn.clear()
        kn["consts"] = consts

    # --- round 4: status register on the stack, rti, indirect jumps, decimal flag, long runs -------------
    def flags_known(self, out, kn, d=False):
        """Emit flag instructions + a load so that the generator knows all six flags; returns the status byte (bits 4,5 = 0)."""
        r = self.r
        i, c = r.random() < 0.5, r.random() < 0.5
        v = r.choice([0, 1, 127, 128, 255, r.randrange(256)])
        out += [insn("sei" if i else "cli"), insn("sed" if d else "cld"), insn("clv"), insn("sec" if c else "clc"),
                insn("lda", "imm", self.lit(v))]
        kn["a"], kn["z"], kn["n"], kn["c"] = v, v == 0, v >= 128, c
        return (128 if v >= 128 else 0) | (8 if d else 0) | (4 if i else 0) | (2 if v == 0 else 0) | (1 if c else 0)

    def flag_asserts(self, b, want_true=True):
        names = [("carry", 1), ("zero", 2), ("interrupt_disable", 4), ("overflow", 64), ("negative", 128)]
        nm, m = self.r.choice(names)
        f = ident("cpu.flags." + nm)
        return assert_(f if bool(b & m) == want_true else fac(f, nt=True), self.fresh("m") if self.r.random() < 0.5 else None)

    def round4(self, kn, keep):
        r = self.r
        out = []
        c = r.random()
        msg = lambda: self.fresh("m") if r.random() < 0.5 else None
        if c < 0.22:
            # php / pla: the pushed copy of the status register has bits 4 and 5 set
            p = self.flags_known(out, kn) | 0x30
            out += [insn("php"), insn("pla")]
            ok = r.random() < 0.8
            out.append(assert_(binop("==", ident("cpu.a"), self.lit(p if ok else p ^ r.choice([0x10, 0x20, 0x30]))), msg()))
            kn["a"], kn["z"], kn["n"] = p, False, p >= 128
        elif c < 0.44:
            # lda #b / pha / plp: the six flags come from the byte, bits 4 and 5 of it are ignored
            b = r.randrange(256) & ~8
            out += [insn("lda", "imm", self.lit(b)), insn("pha"), insn("plp")]
            out.append(self.flag_asserts(b, r.random() < 0.85))
            if r.random() < 0.6:
                out += [insn("php"), insn("pla"),
                        assert_(binop("==", ident("cpu.a"), self.lit((b | 0x30) if r.random() < 0.85 else b)), msg())]
                kn["a"] = b | 0x30
            else:
                kn["a"] = b
            kn["z"], kn["n"], kn["c"] = bool(b & 2), bool(b & 128), bool(b & 1)
            if kn["a"] == (b | 0x30):
                kn["z"], kn["n"] = False, bool(b & 128)
        elif c < 0.60:
            # rti: flags and pc from the stack, no +1 on the pc (unlike rts)
            tgt = self.fresh("rt")
            b = r.randrange(256) & ~8
            out += [insn("lda", "imm", ident(tgt, ">")), insn("pha"), insn("lda", "imm", ident(tgt, "<")), insn("pha"),
                    insn("lda", "imm", self.lit(b)), insn("pha"), insn("rti"),
                    assert_(binop("==", ident("cpu.a"), num(0x100, "hex")), "not reached"),     # skipped by the rti
                    insn("nop"), label(tgt)]
            out.append(self.flag_asserts(b, r.random() < 0.85))
            # (round-4 blocks only occur at the top level of a test body, where the stack is balanced: sp = $FD)
            out.append(assert_(binop("==" if r.random() < 0.85 else "!=", ident("cpu.sp"), self.lit(0xfd)), msg()))
            kn["a"], kn["z"], kn["n"], kn["c"] = b, bool(b & 2), bool(b & 128), bool(b & 1)
        elif c < 0.82:
            # jmp (vector): through a data word, or through a vector built in RAM; a vector at $xxFF takes its
            # high byte from $xx00 (the other candidate, $xxFF+1, gets a decoy)
            tgt = self.fresh("jt")
            skipped = [assert_(binop("==", ident("cpu.a"), num(0x100, "hex")), "not reached"), insn("nop")]
            if r.random() < 0.35:
                vec = self.fresh("vec")
                self.vectors.append((vec, tgt))
                out += [insn("jmp", "ind", ident(vec))] + skipped + [label(tgt)]
            else:
                v = r.choice([0x20, 0x00ff, 0x02ff, 0x02ff, 0x0280])
                hi_at = (v & 0xff00) | ((v + 1) & 0xff)
                out += [insn("lda", "imm", ident(tgt, "<")), insn("sta", "dir", self.lit(v)),
                        insn("lda", "imm", ident(tgt, ">")), insn("sta", "dir", self.lit(hi_at))]
                if hi_at != v + 1:
                    out += [insn("lda", "imm", num(0)), insn("sta", "dir", self.lit(v + 1))]
                out += [insn("jmp", "ind", self.lit(v))] + skipped + [label(tgt)]
                kn["a"] = kn["z"] = kn["n"] = None
                kn.get("mem", {}).pop(v, None)
            out.append(assert_(binop("==", pc(), ident(tgt)) if r.random() < 0.85 else binop("!=", pc(), ident(tgt)), msg()))
        elif c < 0.86:
            # decimal flag set during an add/subtract: the property is silent from there (tier 2 mirrors the emulator)
            self.flags_known(out, kn, d=True)
            out += [insn(r.choice(["adc", "sbc"]), "imm", self.lit(r.choice([0x01, 0x09, 0x15, 0x99]))), insn("cld")]
            out.append(assert_(binop("<", ident("cpu.a"), num(256)), msg()))
            kn["a"] = kn["z"] = kn["n"] = kn["c"] = None
        elif c < 0.93:
            # the top of memory: install a vector at $fffa/$fffc/$fffe and read it back, including the very last byte
            v = r.choice([0xfffe, 0xfffe, 0xfffc, 0xfffa])
            lo, hi = r.randrange(256), r.randrange(256)
            out += [insn("lda", "imm", self.lit(lo)), insn("sta", "dir", self.lit(v)),
                    insn("lda", "imm", self.lit(hi)), insn("sta", "dir", self.lit(v + 1))]
            kn["a"], kn["z"], kn["n"] = hi, hi == 0, hi >= 128
            w = lo + 256 * hi
            ok = r.random() < 0.85
            out.append(assert_(binop("==", ram(self.lit(v), word=True), self.lit(w if ok else (w + 1) % 65536)), msg()))
            if r.random() < 0.7:
                out.append(assert_(binop("==" if r.random() < 0.85 else "!=", ram(self.lit(v + 1)), self.lit(hi)), msg()))
            if v == 0xfffe and r.random() < 0.3:
                out.append(assert_(binop("==", ram(num(0xffff, "hex")), binop("/", ram(num(0xfffe, "hex"), word=True), num(256))), msg()))
        elif c < 0.96:
            # a gap in the address space: jump over a `* =' (the skipped addresses read as BRK)
            lab = self.fresh("gp")
            out += [insn("jmp", "dir", ident(lab)), setpc(binop("+", pc(), num(r.choice([1, 3, 16, 200])))), label(lab)]
            out.append(assert_(binop("==", pc(), ident(lab)) if r.random() < 0.85 else binop("<", pc(), num(0x100, "hex")), msg()))
        elif self.long_runs and "x" not in keep and "y" not in keep:
            # delay loops: hundreds to thousands of instructions before the next assertion
            big = self.long_runs > 1 and r.random() < 0.3
            k = r.choice([0, 255, 200, 120, 64]) if (big or r.random() < 0.3) else r.randrange(20, 90)
            li = self.fresh("li")
            inner = [insn("ldy", "imm", self.lit(k)), label(li), insn("dey"), insn("bne", "dir", ident(li))]
            if r.random() < 0.6:
                j = r.randrange(2, (28 if self.long_runs == 2 else 95) if big else 5)
                lo = self.fresh("lo")
                body = [label(lo)] + inner
                if r.random() < 0.6:
                    body.append(assert_(binop("==", ident("cpu.y"), num(0)) if r.random() < 0.9 else binop("==", ident("cpu.x"), num(j)), msg()))
                out += [insn("ldx", "imm", self.lit(j))] + body + [insn("dex"), insn("bne", "dir", ident(lo))]
                kn["x"] = 0
            else:
                out += inner
            kn["y"], kn["z"], kn["n"] = 0, True, False
        else:
            out += self.simple(kn, keep)
        return out

    def block(self, kn, depth, subs, keep=()):
        """A sequence of statements; kn is updated to what is known afterwards."""
        r = self.r
        out = []
        for _ in range(r.randrange(1, 5)):
            if depth == 0 and "a" not in keep and r.random() < 0.13:
                out += self.round4(kn, keep)
                continue
            c = r.random()
            if c < 0.06 and "a" not in keep:
                # a 16-bit value stored low byte first, read back with ram16() (and the bytes with ram())
                a = r.choice([16, 17, 0x0200, 0x02ff])
                lo, hi = r.randrange(256), r.randrange(256)
                out += [insn("lda", "imm", self.lit(lo)), insn("sta", "dir", self.lit(a)),
                        insn("lda", "imm", self.lit(hi)), insn("sta", "dir", self.lit(a + 1))]
                kn["a"], kn["z"], kn["n"] = hi, hi == 0, hi >= 128
                m = kn.setdefault("mem", {})
                m[a], m[a + 1] = lo, hi
                w = lo + 256 * hi
                ok = r.random() < 0.85
                out.append(assert_(binop("==", ram(self.lit(a), word=True), self.lit(w if ok else (hi + 256 * lo if hi != lo else w + 1))),
                                   self.fresh("m") if r.random() < 0.5 else None))
            elif c < 0.45:
                out += self.simple(kn, keep)
            elif c < 0.65:
                out.append(self.gen_assert(kn))
            elif c < 0.73 and depth < 2 and "x" not in keep:
                # counted loop: the assertion inside sees x = n on the first visit only
                n = r.randrange(1, 4)
                lab = self.fresh("lp")
                kn["x"] = n
                kn["z"], kn["n"] = False, False
                body = [label(lab)]
                inner = dict(kn, mem=dict(kn.get("mem", {})))
                if r.random() < 0.8:
                    body.append(self.gen_assert(inner, 0.9))
                for _ in range(r.randrange(0, 3)):
                    body += self.simple(inner, keep=("x",) + tuple(keep))
                if r.random() < 0.4:
                    inner2 = {"consts": kn.get("consts", {})}
                    body.append(self.gen_assert(inner2, 0.9))
                body += [insn("dex"), insn("bne", "dir", ident(lab))]
                out += [insn("ldx", "imm", num(n))] + body
                self.forget(kn)
                kn["x"], kn["z"], kn["n"] = 0, True, False
            elif c < 0.81 and depth < 2:
                # forward skip: whichever way the branch goes, assertions in the skipped part must not count
                lab = self.fresh("sk")
                out += self.simple(kn, keep)
                br = r.choice(["beq", "bne", "bcc", "bcs", "bmi", "bpl"])
                inner = {"consts": kn.get("consts", {})}
                skipped = self.block(inner, depth + 1, subs, keep)
                if r.random() < 0.7:
                    skipped.append(self.gen_assert(dict(kn), 0.2))
                out += [insn(br, "dir", ident(lab))] + skipped + [label(lab)]
                self.forget(kn)
            elif c < 0.89 and subs:
                s = r.choice(subs)
                out.append(insn("jsr", "dir", ident(s)))
                self.forget(kn)
            elif c < 0.95 and depth < 2:
                cname = r.choice(["ca", "cb"])
                v = r.randrange(256)
                inner = dict(kn, consts=dict(kn.get("consts", {}), **{cname: v}), mem=dict(kn.get("mem", {})))
                body = [const(cname, self.lit(v))]
                if "a" not in keep:
                    body.append(insn("lda", "imm", ident(cname)))
                    inner["a"], inner["z"], inner["n"] = v, v == 0, v >= 128
                body.append(self.gen_assert(inner, 0.85))
                body += self.block(inner, depth + 1, subs, keep)
                scoped = braces(body) if r.random() < 0.6 else label(self.fresh("sc"), body)
                out.append(scoped)
                for g in ("a", "x", "y", "z", "n", "c", "mem"):
                    if g in inner:
                        kn[g] = inner[g]
                    else:
                        kn.pop(g, None)
            elif depth < 2 and "y" not in keep:
                n = r.randrange(1, 4)
                base = kn.get("y")
                body = [insn("iny")]
                if base is not None and r.random() < 0.8:
                    e = binop("==", ident("cpu.y"), binop("+", num((base + 1) % 200), ident("index")))
                    body.append(assert_(e, None))
                else:
                    body.append(assert_(binop("<", ident("index"), num(n if r.random() < 0.8 else 1)), None))
                out.append(loop(n, body))
                kn["y"] = None if base is None else (base + n) % 256
                kn["z"] = kn["n"] = None
        return out

    def subroutine(self, name, deeper):
        r = self.r
        kn = {"consts": {}}
        body = []
        if r.random() < 0.6:
            a = r.choice([16, 17, 18])
            body.append(insn("inc", "dir", self.lit(a)))
            # true on the first call only (the cell starts at 0 unless the test stored something there)
            body.append(assert_(binop("==" if r.random() < 0.7 else "<=", ram(self.lit(a)), num(1)), self.fresh("m")))
        body += self.block(kn, 2, deeper)
        body.append(insn("rts"))
        return label(name, body) if r.random() < 0.5 else [label(name)] + body

    def project(self):
        r = self.r
        self.n = 0
        banked = r.random() < 0.3
        segdefs, where = [], [None]
        if banked:
            s0 = r.choice([0x1000, 0x2000, 0x8000])
            segdefs = [{"name": "sa", "bank": "ba", "start": s0}, {"name": "sb", "bank": "bb", "start": s0},
                       {"name": "da", "bank": "ba", "start": 0x4000}, {"name": "db", "bank": "bb", "start": 0x4000}]
            segdefs += [{"name": "va", "bank": "ba", "start": 0xfffa}, {"name": "vb", "bank": "bb", "start": 0xfffa}]
            self.bank_vectors = {"sa": [r.randrange(0x100, 0xffff) for _ in range(3)], "sb": [r.randrange(0x100, 0xffff) for _ in range(3)]}
            where = ["sa", "sb"]
            self.unwritten = r.random() < 0.4
        items = []
        if r.random() < 0.5:
            items.append(const("ca", self.lit(r.randrange(256))))
        consts0 = {st["name"]: st["e"]["n"] for st in items}
        ntests = r.randrange(1, 4)
        per_seg = {w: [] for w in where}
        marks = {"sa": (0x4000, 17), "sb": (0x4000, 34)}
        for ti in range(ntests):
            w = where[ti % len(where)]
            subs, extra, outs = [], [], []
            for _ in range(r.randrange(0, 3)):
                nm = self.fresh("sub")
                outside = r.random() < 0.6
                # a subroutine outside the test is assembled for every test, so it may only call others that are outside too
                sb = self.subroutine(nm, list(outs) if outside else list(subs))
                extra.append((nm, sb, outside))
                subs.append(nm)
                if outside:
                    outs.append(nm)
            kn = {"consts": dict(consts0)}
            if banked:
                kn["mem"] = {marks[w][0]: marks[w][1], segdefs[0]["start"]: None}
            body = self.block(kn, 0, subs)
            body += self.block(kn, 0, subs)
            if banked and r.random() < 0.8:
                other = [m for k_, m in marks.items() if k_ != w][0]
                body.append(assert_(binop("==", ram(num(0x4000, "hex")), num(marks[w][1] if r.random() < 0.8 else other[1])), None))
            if banked and r.random() < 0.6:
                # the bank's own interrupt vectors at $fffa-$ffff (the other bank holds different ones at the same addresses)
                vw = self.bank_vectors[w]
                i3 = r.randrange(3)
                if r.random() < 0.5:
                    body.append(assert_(binop("==" if r.random() < 0.85 else "!=", ram(num(0xfffa + 2 * i3, "hex"), word=True), self.lit(vw[i3])), None))
                else:
                    body.append(assert_(binop("==", ram(num(0xffff, "hex")), self.lit(vw[2] // 256 if r.random() < 0.85 else vw[2] % 256)), None))
            inside, outside = [], []
            for nm, sb, is_out in extra:
                (outside if is_out else inside).append(sb)
            # rare shapes: `* =' in front of the first instruction, ram16($ffff) (wraps), an instruction touching $ffff (finding: crash
            # inside the emulator)
            q = r.random()
            if any(st.get("mn") == "sed" for st in body):
                q = max(q, 0.04) if q >= 0.03 else q      # keep the crash shapes out of tests on which the spec is silent (decimal add)
            if q < 0.03:
                body = [setpc(binop("+", pc(), num(r.choice([2, 16, 256]))))] + body
            elif q < 0.04:
                # a word at the last address wraps around: high byte from $0000
                lo, hi = r.randrange(256), r.randrange(256)
                body += [insn("lda", "imm", self.lit(lo)), insn("sta", "dir", num(0xffff, "hex")), insn("lda", "imm", self.lit(hi)),
                         insn("sta", "dir", num(0)),
                         assert_(binop("==", ram(num(0xffff, "hex"), word=True), self.lit(lo + 256 * hi if r.random() < 0.8 else lo)), None)]
            elif q < 0.05 and ti == ntests - 1:
                body.append(insn("jmp", "ind", num(0xffff, "hex")) if r.random() < 0.5 else data(1, [num(2)]))    # .byte 2 = KIL
            tail = [insn("brk")] if (r.random() < 0.9 or inside or self.vectors) else []
            tb = body + tail
            for vec, tgt in self.vectors:           # vectors of jmp (vec), behind the brk
                tb += [label(vec), data(2, [ident(tgt)])]
            self.vectors = []
            for sb in inside:
                tb += sb if isinstance(sb, list) else [sb]
            t = test("t%d" % (ti + 1), tb)
            wrapped = label("grp%d" % ti, [t]) if r.random() < 0.2 else t
            per_seg[w].append(wrapped)
            for sb in outside:
                per_seg[w] += sb if isinstance(sb, list) else [sb]
        for w in where:
            if w is None:
                items += per_seg[w]
            else:
                items.append(useseg(w, per_seg[w]))
        if banked:
            items.append(useseg("da", [data(1, [num(17)])]))
            items.append(useseg("db", [data(1, [num(34)])]))
            items.append(useseg("va", [data(2, [num(x, "hex") for x in self.bank_vectors["sa"]])]))
            items.append(useseg("vb", [data(2, [num(x, "hex") for x in self.bank_vectors["sb"]])]))
        files = []
        shape = r.random()
        if banked and shape >= 0.06 and self.unwritten:
            # segments that are not written to the file image (one or two per bank, never all three): the bank's tests see them where
            # they run; the OTHER bank's tests must not (its code, marker byte and vectors sit at the same addresses)
            for suffix in r.sample(["a", "b"], r.choice([1, 2, 2])):
                for nm in r.sample(["s" + suffix, "d" + suffix, "v" + suffix], r.choice([1, 1, 2])):
                    for d in segdefs:
                        if d["name"] == nm:
                            d["write"] = False
        if banked and shape < 0.06:
            # the first bank is declared with a size that reaches past $FFFF (padded file image)
            for d in segdefs:
                d["size"] = (0x10100 - min(x["start"] for x in segdefs if x["bank"] == "ba")) if d["bank"] == "ba" else 0
        elif not banked and shape < 0.10:
            if shape < 0.05:
                # everything runs at $8000 but is stored at $4000
                segdefs = [{"name": "code", "bank": "bk", "start": 0x4000, "pc": 0x8000}]
                items = [useseg("code", items)]
            else:
                # the code lives in a segment that is not written to the file image
                segdefs = [{"name": "keep", "bank": "bk", "start": 0x2000}, {"name": "tests", "bank": "bk", "start": 0x8000, "write": False}]
                items = [useseg("keep", [data(1, [num(0x60, "hex")])]), useseg("tests", items)]
        elif not banked and shape < 0.15:
            # a test that only exists in the test configuration
            idx = [i for i, st in enumerate(items) if st["k"] == "test"]
            if idx:
                i = r.choice(idx)
                items[i] = {"k": "iftest", "body": [items[i]]}
        elif not banked and shape < 0.35:
            # one bank, two segments: the tests in one, the subroutines they call (with their assertions) in the other
            def is_test(st):
                return st["k"] in ("test", "iftest") or (st["k"] == "label" and st["hasBody"] and st["body"] and st["body"][0]["k"] == "test")
            consts = [st for st in items if st["k"] == "const"]
            tests = [st for st in items if is_test(st)]
            rest = [st for st in items if st["k"] != "const" and not is_test(st)]
            # every library routine ends with a passing and (half of them) a failing assertion of its own, and most tests call one first
            def before_rts(ss):
                out = []
                for st in ss:
                    if st["k"] == "insn" and st["mn"] == "rts":
                        out.append(assert_(binop("<", ident("cpu.sp"), num(256)), None))
                        if r.random() < 0.5:
                            out.append(assert_(binop(">", ident("cpu.sp"), num(255)), self.fresh("libfails")))
                    if st["k"] == "label" and st["hasBody"]:
                        st["body"] = before_rts(st["body"])
                    out.append(st)
                return out
            rest = before_rts(rest)
            subs_in_lib = [st["name"] for st in rest if st["k"] == "label" and st["name"].startswith("sub")]

            def call_first(st):
                if st["k"] == "test":
                    if subs_in_lib and r.random() < 0.7:
                        st["body"].insert(1 if st["body"] and st["body"][0]["k"] == "setpc" else 0, insn("jsr", "dir", ident(r.choice(subs_in_lib))))
                else:
                    for x in st["body"]:
                        call_first(x)
            for st in tests:
                call_first(st)
            segdefs = [{"name": "lib", "bank": "bk", "start": r.choice([0x2000, 0x9000])}, {"name": "tests", "bank": "bk", "start": 0x6000}]
            items = consts + ([useseg("lib", rest), useseg("tests", tests)] if r.random() < 0.5 else [useseg("tests", tests), useseg("lib", rest)])
        elif not banked and ntests >= 1 and r.random() < 0.2:
            # the last test (with the subroutines written behind it) lives in an imported file
            idx = max(i for i, st in enumerate(items) if st["k"] == "test" or (st["k"] == "label" and st["hasBody"] and st["body"] and st["body"][0]["k"] == "test"))
            files = [{"name": "lib.asm", "items": items[idx:]}]
            imp = {"k": "import", "file": "lib.asm", "sid": "$import"}
            items = ([imp] + items[:idx]) if r.random() < 0.5 else (items[:idx] + [imp])
        return number({"segdefs": segdefs, "files": files, "items": items})
