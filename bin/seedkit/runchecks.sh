#!/bin/bash
# usage: runchecks.sh <seed-id> <check-id>...
sid=$1; shift
for cid in "$@"; do
  echo "=== seed $sid check $cid $(date +%T)"
  VERIF_REPO=/tmp/seed9/$sid VERIF_WORK=/verif/.work-s9-$sid timeout 3000 /verif/bin/check $cid quick > /tmp/seed9/$sid-out/check_$cid.log 2>&1
  echo "rc=$?"; grep -E "VIOLATION|KNOWN-FINDING|TOOL-ERROR|MODEL-DRIFT" /tmp/seed9/$sid-out/check_$cid.log | head -5
done
