#!/bin/bash
# process.sh <id> [extra checks...]: confirm the seed, then run its property's quick check (and extras) against the patched worktree
id=$1; shift
cd /verif && SEEDROOT=/tmp/seed9 SEEDROUND=9 bin/confirm_seed3 $id 8 2>&1 | tail -2
/tmp/seed9/runchecks.sh $id $id "$@"
