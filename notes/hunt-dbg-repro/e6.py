from dap import *
SRC = """.test "t" {
    lda #1
    jsr outer
    ldx #2
    .loop 3 {
        iny
    }
    brk
}
outer: {
    pha
    jsr inner
    pla
    rts
}
inner: {
    nop
    rts
}
"""
d = mkproj({"main.asm": SRC}); l = Lsp(d); c = Dap(l)
c.start("t", bps=[17]); c.wait_event("stopped"); print("at", c.line(), c.regs())
c.req("stepOut"); c.wait_event("stopped"); print("stepOut from inner ->", c.line(), c.regs(), "(expect line 13 pla)")
c.req("stepOut"); c.wait_event("stopped"); print("stepOut from outer ->", c.line(), c.regs(), "(expect line 4)")
c.setbps([6])
hits = []
for i in range(5):
    c.req("continue"); e = c.wait_event("stopped", 1.5)
    if not isinstance(e, dict): break
    hits.append((c.line(), c.regs()["Y"], c.regs()["CYC"]))
print("loop bp hits:", hits)
c.drain(); print([(e["event"], (e.get("body") or {}).get("output")) for e in c.events])
# stepIn all the way, compare cycle count
c.close(); c = Dap(l); c.start("t", bps=[2]); c.wait_event("stopped")
trace = []
for i in range(30):
    ln = c.line(); r = c.regs(); trace.append((ln, r["CYC"]))
    if ln == 8: break
    c.req("stepIn"); c.wait_event("stopped")
print("stepIn trace:", trace)
c.close(); c = Dap(l); c.start("t", bps=[2]); c.wait_event("stopped")
trace = []
for i in range(30):
    ln = c.line(); r = c.regs(); trace.append((ln, r["CYC"]))
    if ln == 8: break
    c.req("next"); c.wait_event("stopped")
print("next trace:", trace)
print(l.shutdown_exit())
