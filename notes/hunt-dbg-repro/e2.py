from dap import *
SRC = """.import * from "lib.asm"
.macro m() {
    inx
    iny
}
.test "t" {
    lda #1
    jsr sub
    ldx #2
    m()
    m()
    // comment line
    jsr libsub
    ldy #3
    brk
}
sub: {
    nop
    inx
    rts
}
"""
LIB = """libsub: {
    nop
    lda #7
    rts
}
"""
d = mkproj({"main.asm": SRC, "lib.asm": LIB})
l = Lsp(d)
c = Dap(l)
c.start("t", bps=[7, 8], config_done=False)
print("A: bps on lines 7,8,12(comment),10(macro call),3(macro body):")
r = c.setbps([7, 8, 12, 10, 3])
print("  ", [(b.get("line"), b.get("verified"), b.get("id")) for b in r["body"]["breakpoints"]])
c.setbps([7, 8])
c.req("configurationDone")
print(c.wait_event("stopped")["body"]["reason"], "line", c.line(), "sp", c.ev("cpu.sp"), "a", c.ev("cpu.a"), "zero", c.ev("cpu.flags.zero"))
c.req("next"); print(c.wait_event("stopped")["body"]["reason"], "line", c.line(), c.regs())
c.req("continue"); e = c.wait_event("stopped", 2); print("B: continue from bp line 8 reached by step:", e and e["body"]["reason"], "line", c.line(), c.regs())
# C: breakpoint in sub, next over jsr
c.setbps([18])
c.req("next"); e = c.wait_event("stopped", 2); print("C: next over jsr with bp in sub (line 18): line", c.line(), c.regs())
# D: set bp in lib.asm, then main again
r1 = c.setbps([14])
r2 = c.setbps([3], file="lib.asm")
print("D: main bps", len(r1["body"]["breakpoints"]), "lib bps", len(r2["body"]["breakpoints"]))
c.req("continue"); e = c.wait_event("stopped", 2); print("   stopped at line", c.line(), c.req("stackTrace", {"threadId":1})["body"]["stackFrames"][0]["source"] if e else None, c.regs())
c.req("continue"); e = c.wait_event("stopped", 2); print("   2nd continue: stopped?", e and e["body"], "line", c.line() if isinstance(e, dict) else None)
c.drain(); print([ (e["event"], e.get("body",{}).get("output")) for e in c.events])
print(l.shutdown_exit())
