from dap import *
d = mkproj({"main.asm": ".test \"t\" {\n nop\n brk\n}\n"})
def run(name, msgs, close=True, wait=6):
    port = free_port()
    p = subprocess.Popen([MOS, "lsp", "--debug-adapter-port", str(port)], cwd=d, stdin=subprocess.PIPE, stdout=subprocess.PIPE, stderr=subprocess.PIPE)
    t0 = time.time()
    try:
        for m in msgs:
            p.stdin.write(m if isinstance(m, bytes) else frame(m)); p.stdin.flush(); time.sleep(0.15)
        if close: p.stdin.close()
    except BrokenPipeError: pass
    try: rc = p.wait(wait)
    except subprocess.TimeoutExpired: rc = None; p.kill()
    err = p.stderr.read().decode(errors="replace")
    print("%-40s exit=%s %.2fs %s" % (name, rc, time.time() - t0, ("PANIC: " + [x for x in err.splitlines() if "panicked" in x][0]) if "panicked" in err else err.strip()[:100]))
init = {"jsonrpc": "2.0", "id": 0, "method": "initialize", "params": {"capabilities": {}}}
inited = {"jsonrpc": "2.0", "method": "initialized", "params": {}}
shutdown = {"jsonrpc": "2.0", "id": 1, "method": "shutdown"}
exit_ = {"jsonrpc": "2.0", "method": "exit"}
run("stdin closed at once", [])
run("initialize then close", [init])
run("exit without shutdown", [init, inited, exit_], close=False)
run("exit before initialize", [exit_], close=False)
run("shutdown before initialize", [shutdown, exit_], close=False)
run("shutdown, exit (no initialized)", [init, shutdown, exit_], close=False)
run("shutdown then close stdin (no exit)", [init, inited, shutdown])
run("garbage header", [b"Hello\r\n\r\n"], close=False)
run("garbage json", [init, inited, b"Content-Length: 5\r\n\r\n{{{{{"], close=False)
run("request before initialize", [{"jsonrpc": "2.0", "id": 5, "method": "textDocument/hover", "params": {}}, init, inited, shutdown, exit_], close=False)
run("shutdown twice", [init, inited, shutdown, dict(shutdown, id=2), exit_], close=False)
run("shutdown without id (notification)", [init, inited, {"jsonrpc": "2.0", "method": "shutdown"}, exit_], close=False)
run("second initialize", [init, inited, dict(init, id=7), shutdown, exit_], close=False)
