from dap import *
SRC = """.test "t" {
    lda #1
    ldx #2
    ldy #3
    brk
}
.test "loop" {
    ldx #0
l:  inx
    jmp l
}
"""
def S(r): return (r if not isinstance(r, dict) else (r.get("success"), r.get("message"), r.get("body")))
d = mkproj({"main.asm": SRC}); l = Lsp(d); c = Dap(l)
print("before launch:")
c.req("initialize", {"adapterID": "mos", "linesStartAt1": True, "columnsStartAt1": True})
for cmd, a in [("next", None), ("stackTrace", {"threadId": 1}), ("evaluate", {"expression": "1"}), ("variables", {"variablesReference": 1}), ("pause", None), ("continue", None), ("configurationDone", None), ("setBreakpoints", {"source": {"path": d + "/main.asm"}, "breakpoints": [{"line": 2}]}), ("scopes", {"frameId": 1}), ("threads", None)]:
    print("  ", cmd, S(c.req(cmd, a, timeout=2)))
print("launch unknown test:", S(c.req("launch", {"workspace": d, "noDebug": False, "testRunner": {"testCaseName": "nosuch"}})))
print("launch t:", S(c.req("launch", {"workspace": d, "noDebug": False, "testRunner": {"testCaseName": "t"}})))
c.req("configurationDone")
print(c.wait_event("output", 3) and "output ok", c.wait_event("terminated", 3) and "terminated")
print("after end:")
for cmd, a in [("stackTrace", {"threadId": 1}), ("evaluate", {"expression": "cpu.a"}), ("variables", {"variablesReference": 1}), ("next", None), ("pause", None), ("continue", None), ("stepOut", None), ("variables", {"variablesReference": 1})]:
    print("  ", cmd, S(c.req(cmd, a, timeout=2)))
c.drain(); print("  events:", [(e["event"], e.get("body")) for e in c.events]); c.events.clear()
print("  line after end:", c.line(), "state regs", c.regs())
print("relaunch in same connection:", S(c.req("launch", {"workspace": d, "noDebug": False, "testRunner": {"testCaseName": "loop"}})))
c.req("configurationDone"); time.sleep(0.3)
print("pause:", S(c.req("pause"))); e = c.wait_event("stopped", 2); print("  ", e and e["body"])
r1 = c.regs(); l1 = c.line(); time.sleep(0.3); r2 = c.regs(); print("  regs stable:", r1 == r2, r1, r2, "line", l1)
print("pause again:", S(c.req("pause"))); e = c.wait_event("stopped", 1); print("  extra stopped event:", e and e["body"])
print("disconnect:", S(c.req("disconnect", {"restart": False})))
c.close(); time.sleep(0.3)
c = Dap(l); print("reconnect:", S(c.start("t", bps=[3]))); e = c.wait_event("stopped", 2); print("  ", e and e["body"], c.line(), c.regs())
print(l.shutdown_exit())
