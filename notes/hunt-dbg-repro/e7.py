from dap import *
SRC = """.test "t" {
    lda #1
    ldx #2
    brk
}
.test "loop" {
    ldx #0
l:  inx
    jmp l
}
.test "sub" {
    jsr forever
    brk
}
forever: jmp forever
"""
def port_open(p):
    s = socket.socket()
    try:
        s.connect(("127.0.0.1", p)); s.close(); return True
    except OSError:
        return False
def trial(name, setup, how="shutdown"):
    d = mkproj({"main.asm": SRC}); l = Lsp(d)
    keep = setup(l)
    rc = l.shutdown_exit() if how == "shutdown" else l.close_stdin()
    print("%-45s %-9s exit=%s after %.2fs port_open=%s" % (name, how, rc[0], rc[1], port_open(l.port)))
    l.kill()
def none(l): return None
def idle(l): c = Dap(l); c.req("initialize", {"adapterID": "x"}); return c
def launched(l): c = Dap(l); c.start("t", config_done=False); return c
def running(l): c = Dap(l); c.start("loop"); time.sleep(0.2); return c
def paused(l): c = Dap(l); c.start("t", bps=[2]); c.wait_event("stopped"); return c
def stepping(l): c = Dap(l); c.start("sub", bps=[12]); c.wait_event("stopped"); c.send("next", {"threadId": 1}); time.sleep(0.2); return c
def ended(l): c = Dap(l); c.start("t"); c.wait_event("terminated"); return c
def dropped(l): c = Dap(l); c.start("t", bps=[2]); c.wait_event("stopped"); c.close(); time.sleep(0.2); return None
def dropped_running(l): c = Dap(l); c.start("loop"); time.sleep(0.2); c.close(); time.sleep(0.2); return None
def second(l):
    c = Dap(l); c.start("t"); c.wait_event("terminated"); c.req("disconnect", {}); c.close(); time.sleep(0.2)
    c = Dap(l); c.start("t", bps=[2]); c.wait_event("stopped"); return c
def disconnected(l): c = Dap(l); c.start("t", bps=[2]); c.wait_event("stopped"); c.req("disconnect", {}); return c
def connected_only(l): c = Dap(l); return c
def halfmsg(l): c = Dap(l); c.raw(b"Content-Length: 100\r\n\r\n{"); return c
for how in ("shutdown", "stdin"):
    for name, fn in [("none", none), ("connected, nothing sent", connected_only), ("half message", halfmsg), ("initialized idle", idle), ("launched, not configured", launched), ("running", running), ("paused", paused), ("stepping endless", stepping), ("ended", ended), ("client dropped while paused", dropped), ("client dropped while running", dropped_running), ("second session", second), ("after disconnect, socket open", disconnected)]:
        trial(name, fn, how)
