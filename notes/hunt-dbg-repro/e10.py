from dap import *
d = mkproj({"main.asm": ".test \"t\" {\n nop\n brk\n}\n"})
for hdr in [b"Content-Length: 999999999999999\r\n\r\n", b"Content-Length: 18446744073709551615\r\n\r\n", b"Content-Length: -1\r\n\r\n", b"Content-Length: 2\r\n\r\n[]", b"Content-Length: 4\r\n\r\nnull", b"Foo\r\n\r\n"]:
    l = Lsp(d); c = Dap(l); c.raw(hdr); time.sleep(0.5)
    alive_proc = l.p.poll() is None
    c.close(); time.sleep(0.2)
    ok = False
    try:
        c2 = Dap(l); r = c2.req("initialize", {"adapterID": "x"}, timeout=2); ok = isinstance(r, dict)
    except Exception as e: pass
    print(hdr[:40], "process alive:", alive_proc, "rc", l.p.poll(), "adapter usable afterwards:", ok, "shutdown:", l.shutdown_exit() if alive_proc else None)
    l.kill()
