from dap import *
SRC = """.test "t" {
    lda #1
    .assert cpu.a == 1
    .assert cpu.a == 99 "boom"
    ldy #3
    brk
}
"""
d = mkproj({"main.asm": SRC}); l = Lsp(d); c = Dap(l)
c.start("t"); o = c.wait_event("output", 3); print(json.dumps(o["body"])[:600]); print(c.wait_event("terminated", 2))
c.close()
# launch twice
c = Dap(l); c.start("t", bps=[2]); c.wait_event("stopped")
print("2nd launch:", c.req("launch", {"workspace": d, "noDebug": False, "testRunner": {"testCaseName": "t"}})["success"])
print("line after 2nd launch", c.line(), c.regs())
print(c.req("configurationDone")["success"]); o = c.wait_event("output", 3); print(o and o["body"]["output"][:40])
# noDebug
c.close(); c = Dap(l); c.start("t", no_debug=True, config_done=False); print("noDebug setBreakpoints:", c.setbps([2])["body"])
print(l.shutdown_exit())
