from dap import *
SRC = """.test "t" {
    lda #1
    ldx #2
    ldy #3
    brk
}
"""
d = mkproj({"main.asm": SRC}); l = Lsp(d); c = Dap(l)
c.req("initialize", {"adapterID": "mos"})   # linesStartAt1 omitted: the protocol default is true
c.req("launch", {"workspace": d, "noDebug": False, "testRunner": {"testCaseName": "t"}})
r = c.setbps([3]); print("bp response:", r["body"])
c.req("configurationDone"); c.wait_event("stopped")
print("requested bp on line 3 (ldx #2); stopped with regs", c.regs(), "reported line", c.line())
# second configurationDone while stopped
print(c.req("configurationDone")["success"]); time.sleep(0.3); c.drain()
print("events after 2nd configurationDone:", [e["event"] for e in c.events])
print(l.shutdown_exit())
