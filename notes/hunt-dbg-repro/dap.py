import json, os, socket, subprocess, sys, time, tempfile, shutil, select

MOS = os.environ.get("MOS", "/tmp/hunt/dbg/target/debug/mos")
_port = [21000 + (os.getpid() % 500) * 10]


def free_port():
    while True:
        _port[0] += 1
        s = socket.socket()
        try:
            s.bind(("127.0.0.1", _port[0]))
            s.close()
            return _port[0]
        except OSError:
            s.close()


def mkproj(files, toml=""):
    d = tempfile.mkdtemp(prefix="mosdbg_")
    for name, content in files.items():
        p = os.path.join(d, name)
        os.makedirs(os.path.dirname(p), exist_ok=True)
        open(p, "w").write(content)
    if "mos.toml" not in files:
        open(os.path.join(d, "mos.toml"), "w").write(toml)
    return d


def frame(obj):
    b = json.dumps(obj).encode()
    return b"Content-Length: %d\r\n\r\n" % len(b) + b


class Lsp:
    def __init__(self, d, mos=None):
        self.dir = d
        self.port = free_port()
        self.p = subprocess.Popen([mos or MOS, "lsp", "--debug-adapter-port", str(self.port)],
                                  cwd=d, stdin=subprocess.PIPE, stdout=subprocess.PIPE,
                                  stderr=subprocess.DEVNULL)
        self.id = 0
        self.send({"jsonrpc": "2.0", "id": 0, "method": "initialize",
                   "params": {"capabilities": {}, "rootUri": "file://" + d, "processId": None}})
        self.read()
        self.send({"jsonrpc": "2.0", "method": "initialized", "params": {}})
        # open the entry so that the lsp assembles it
        main = os.path.join(d, "main.asm")
        if os.path.exists(main):
            self.send({"jsonrpc": "2.0", "method": "textDocument/didOpen", "params": {"textDocument": {
                "uri": "file://" + main, "languageId": "asm", "version": 1, "text": open(main).read()}}})
        time.sleep(0.3)

    def send(self, o):
        self.p.stdin.write(frame(o))
        self.p.stdin.flush()

    def read(self, timeout=5):
        fd = self.p.stdout
        hdr = b""
        end = time.time() + timeout
        while not hdr.endswith(b"\r\n\r\n"):
            r, _, _ = select.select([fd], [], [], max(0, end - time.time()))
            if not r:
                return None
            c = os.read(fd.fileno(), 1)
            if not c:
                return None
            hdr += c
        n = int(hdr.split(b"Content-Length: ")[1].split(b"\r\n")[0])
        body = b""
        while len(body) < n:
            body += os.read(fd.fileno(), n - len(body))
        return json.loads(body)

    def shutdown_exit(self, timeout=8):
        """returns (exit status or None if it hangs, seconds)"""
        t0 = time.time()
        try:
            self.send({"jsonrpc": "2.0", "id": 99, "method": "shutdown", "params": None})
            time.sleep(0.2)
            self.send({"jsonrpc": "2.0", "method": "exit", "params": None})
        except BrokenPipeError:
            pass
        try:
            rc = self.p.wait(timeout)
        except subprocess.TimeoutExpired:
            rc = None
        return rc, time.time() - t0

    def close_stdin(self, timeout=8):
        t0 = time.time()
        self.p.stdin.close()
        try:
            rc = self.p.wait(timeout)
        except subprocess.TimeoutExpired:
            rc = None
        return rc, time.time() - t0

    def kill(self):
        try:
            self.p.kill()
            self.p.wait()
        except Exception:
            pass


class Dap:
    def __init__(self, lsp, lines1=True):
        self.lsp = lsp
        for _ in range(50):
            try:
                self.s = socket.create_connection(("127.0.0.1", lsp.port), timeout=2)
                break
            except OSError:
                time.sleep(0.1)
        else:
            raise RuntimeError("cannot connect to debug adapter")
        self.buf = b""
        self.seq = 0
        self.events = []
        self.lines1 = lines1

    def raw(self, b):
        self.s.sendall(b)

    def send(self, command, arguments=None, **extra):
        self.seq += 1
        o = {"seq": self.seq, "type": "request", "command": command}
        if arguments is not None:
            o["arguments"] = arguments
        o.update(extra)
        self.s.sendall(frame(o))
        return self.seq

    def _read_msg(self, timeout):
        end = time.time() + timeout
        while True:
            if b"\r\n\r\n" in self.buf:
                h, rest = self.buf.split(b"\r\n\r\n", 1)
                n = int(h.split(b"Content-Length: ")[1].split(b"\r\n")[0])
                if len(rest) >= n:
                    self.buf = rest[n:]
                    return json.loads(rest[:n])
            left = end - time.time()
            if left <= 0:
                return None
            self.s.settimeout(left)
            try:
                c = self.s.recv(65536)
            except socket.timeout:
                return None
            except OSError:
                return "closed"
            if not c:
                return "closed"
            self.buf += c

    def response(self, seq, timeout=5):
        """wait for the response to seq; events are collected in self.events"""
        while True:
            m = self._read_msg(timeout)
            if m is None or m == "closed":
                return m
            if m.get("type") == "event":
                self.events.append(m)
            elif m.get("type") == "response" and m.get("request_seq") == seq:
                return m

    def req(self, command, arguments=None, timeout=5):
        if arguments is None and command in ("next", "stepIn", "stepOut", "continue", "pause"):
            arguments = {"threadId": 1}
        return self.response(self.send(command, arguments), timeout)

    def wait_event(self, name, timeout=5):
        end = time.time() + timeout
        while True:
            for i, e in enumerate(self.events):
                if e["event"] == name:
                    return self.events.pop(i)
            m = self._read_msg(max(0, end - time.time()))
            if m is None or m == "closed":
                return m
            if m.get("type") == "event":
                self.events.append(m)

    def drain(self, t=0.3):
        while True:
            m = self._read_msg(t)
            if m is None or m == "closed":
                return
            if m.get("type") == "event":
                self.events.append(m)

    def start(self, test, bps=None, file="main.asm", config_done=True, no_debug=False):
        self.req("initialize", {"adapterID": "mos", "linesStartAt1": self.lines1, "columnsStartAt1": self.lines1})
        r = self.req("launch", {"workspace": self.lsp.dir, "noDebug": no_debug, "testRunner": {"testCaseName": test}})
        if bps is not None:
            self.setbps(bps, file)
        if config_done:
            self.req("configurationDone")
        return r

    def setbps(self, lines, file="main.asm"):
        return self.req("setBreakpoints", {"source": {"path": os.path.join(self.lsp.dir, file)},
                                           "breakpoints": [{"line": l} for l in lines]})

    def ev(self, expr):
        r = self.req("evaluate", {"expression": expr})
        if isinstance(r, dict) and r.get("success"):
            return r["body"]["result"]
        return r

    def line(self):
        r = self.req("stackTrace", {"threadId": 1})
        if not isinstance(r, dict) or not r.get("success"):
            return r
        f = r["body"]["stackFrames"]
        return f[0]["line"] if f else None

    def regs(self):
        r = self.req("variables", {"variablesReference": 1})
        return {v["name"]: v["value"] for v in r["body"]["variables"]}

    def close(self):
        try:
            self.s.close()
        except Exception:
            pass
