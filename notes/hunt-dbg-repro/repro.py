#!/usr/bin/env python3
"""repro.py <checkout>: replays every finding against <checkout>/target/debug/mos.
Prints one line per finding: REPRODUCED / not reproduced."""
import os, sys, subprocess, time, json, traceback

CHECKOUT = os.path.abspath(sys.argv[1] if len(sys.argv) > 1 else "/tmp/hunt/dbg")
os.environ["MOS"] = os.path.join(CHECKOUT, "target/debug/mos")
sys.path.insert(0, os.path.dirname(os.path.abspath(__file__)))
from dap import *  # noqa

MOSBIN = os.environ["MOS"]


def mos_test(files, toml=""):
    d = mkproj(files, toml)
    p = subprocess.run([MOSBIN, "--no-color", "test"], cwd=d, stdout=subprocess.PIPE, stderr=subprocess.STDOUT, timeout=20)
    return p.returncode, p.stdout.decode(errors="replace")


RESULTS = []


def finding(name):
    def deco(fn):
        try:
            ok = bool(fn())
        except Exception as e:
            ok = False
            sys.stderr.write("%s: exception %r\n%s" % (name, e, traceback.format_exc()))
        print("%-8s %s" % (name.split()[0], ("REPRODUCED     " if ok else "not reproduced ") + " ".join(name.split()[1:])))
        sys.stdout.flush()
        RESULTS.append(ok)
        return fn
    return deco


# ---------------------------------------------------------------- (A) mos test
@finding("A1a test in a relocated segment (pc != start) passes with 0 cycles although its assertion is false")
def _():
    rc, out = mos_test({"main.asm": """.define segment { name = "code" start = $4000 pc = $8000 }
.segment "code" {
.test "reloc" {
    lda #1
    .assert cpu.a == 2 "must fail"
    brk
}
}
"""})
    return rc == 0 and "1 passed; 0 failed" in out


@finding("A1b test in a write=false segment passes with 0 cycles although its assertion is false")
def _():
    rc, out = mos_test({"main.asm": """.define segment { name = "code" start = $2000 }
.define segment { name = "tests" start = $8000 write = false }
.segment "code" { sub: lda #1
 rts }
.segment "tests" {
.test "t" {
    jsr sub
    .assert cpu.a == 2 "must fail"
    brk
}
}
"""})
    return rc == 0 and "1 passed; 0 failed" in out


@finding("A2 assertion of another bank (same address) fails a test that never executes it")
def _():
    rc, out = mos_test({"main.asm": """.define bank { name = "a" }
.define bank { name = "b" }
.define segment { name = "sa" start = $2000 bank = "a" }
.define segment { name = "sb" start = $2000 bank = "b" }
.segment "sa" {
.test "ta" {
    lda #1
    nop
    brk
}
}
.segment "sb" {
    nop
    nop
    .assert cpu.a == 99 "assertion from bank b"
sub: rts
}
"""})
    return rc == 1 and "assertion from bank b" in out


@finding("A3 cpu.flags.zero/negative are bit masks (2, 128): `.assert cpu.flags.zero == 1` fails with Z set")
def _():
    rc, out = mos_test({"main.asm": """.test "z" {
    lda #0
    .assert cpu.flags.zero == 1
    brk
}
"""})
    return rc == 1 and "flags = -----IZ-" in out


@finding("A4 .trace inside a loop is logged for the first pass only")
def _():
    rc, out = mos_test({"main.asm": """.test "tr" {
    ldx #3
l:  .trace (cpu.x)
    dex
    bne l
    .assert 0
    brk
}
"""})
    return out.count("- cpu.x =") == 1


@finding("A5 .trace prints a negative value as $FFFFFFFFFFFFFFFF")
def _():
    rc, out = mos_test({"main.asm": """.test "tr" {
    lda #0
    .trace (cpu.a - 1)
    .assert 0
    brk
}
"""})
    return "$FFFFFFFFFFFFFFFF" in out


@finding("A6 failure message \"a is {cpu.a}\" is interpolated at assembly time: prints 'a is '")
def _():
    rc, out = mos_test({"main.asm": """.test "msg" {
    lda #5
    .assert cpu.a == 6 "a is {cpu.a}"
    brk
}
"""})
    return "error: a is \n" in out or "error: a is\n" in out


@finding("A7a failing test inside `.if defined(TEST)` is never run: 0 passed; 0 failed, exit 0")
def _():
    rc, out = mos_test({"main.asm": """.if defined(TEST) {
    .test "only_in_test_build" {
        lda #1
        .assert cpu.a == 2 "must fail"
        brk
    }
}
"""})
    return rc == 0 and "0 passed; 0 failed" in out


@finding("A7b test inside `.if !defined(TEST)` aborts the run: 'Test case not found', no summary")
def _():
    rc, out = mos_test({"main.asm": """.test "first" {
    brk
}
.if !defined(TEST) {
    .test "moved" {
        brk
    }
}
"""})
    return rc == 1 and "Test case not found" in out and "test result" not in out


@finding("A8 ram($10010) silently reads $0010")
def _():
    rc, out = mos_test({"main.asm": """.test "t" {
    lda #7
    sta $10
    .assert ram($10010) == 0 "address above $ffff"
    brk
}
"""})
    return rc == 1 and "address above $ffff" in out


@finding("A9 executing opcode $02 (KIL) panics mos test (exit 101, emulator crate)")
def _():
    rc, out = mos_test({"main.asm": """.test "k" {
    .byte 2
    brk
}
"""})
    return rc == 101


@finding("A10 bank with size $f100 and a segment at $1000 builds, but mos test panics in load_program (exit 101)")
def _():
    rc, out = mos_test({"main.asm": """.define bank { name = "cart" size = $f100 fill = $ff }
.define segment { name = "code" start = $1000 bank = "cart" }
.segment "code" {
.test "t" {
    lda #1
    .assert cpu.a == 1
    brk
}
}
"""})
    return rc == 101 and "test_runner/mod.rs" in out


@finding("A11 a user scope `cpu` with a label `a` is overwritten by the register value inside assertions")
def _():
    rc, out = mos_test({"main.asm": """cpu: {
  a: .byte 0
}
.test "t" {
    lda #1
    sta cpu.a
    .assert ram(cpu.a) == 1 "cpu.a is my own label"
    brk
}
"""})
    return rc == 1 and "cpu.a is my own label" in out


@finding("A12 a failing test nested in another test is silently never run")
def _():
    rc, out = mos_test({"main.asm": """.test "outer" {
    lda #1
    .test "inner" {
        lda #2
        .assert cpu.a == 3 "inner must fail"
        brk
    }
    .assert cpu.a == 1
    brk
}
"""})
    return rc == 0 and "1 passed; 0 failed" in out and "inner" not in out


# ---------------------------------------------------------------- (B) debugger
SRC_B =""".import * from "lib.asm"
.macro m() {
    inx
    iny
}
.test "t" {
    lda #1
    jsr sub
    ldx #2
    m()
    m()
    // comment line
    jsr libsub
    ldy #3
    brk
}
sub: {
    nop
    inx
    rts
}
"""
LIB_B = """libsub: {
    nop
    lda #7
    rts
}
"""
SRC_S = """.test "t" {
    lda #1
    ldx #2
    ldy #3
    brk
}
"""


def session(files, test, bps=None, lines1=True):
    d = mkproj(files)
    l = Lsp(d)
    c = Dap(l, lines1)
    c.start(test, bps=bps)
    if bps:
        c.wait_event("stopped")
    return l, c


@finding("B1 stepping onto a failing .assert swallows it: the test ends 'ok'")
def _():
    l, c = session({"main.asm": """.test "t" {
    lda #1
    .assert cpu.a == 99 "boom"
    ldy #3
    brk
}
"""}, "t", [2])
    try:
        for _ in range(4):
            c.req("next"); c.wait_event("stopped")
        at_brk = c.line()
        c.req("next"); c.wait_event("stopped")       # `next` on brk never ends the test
        still = c.line()
        c.req("continue")
        o = c.wait_event("output", 3)
        return isinstance(o, dict) and "ok" in o["body"]["output"] and "FAILED" not in o["body"]["output"] and at_brk == still == 5
    finally:
        l.kill()


@finding("B2 evaluate `*` is the end-of-assembly pc, not the pc of the stop")
def _():
    l, c = session({"main.asm": SRC_S}, "t", [2])
    try:
        v1 = c.ev("*")
        c.req("next"); c.wait_event("stopped")
        v2 = c.ev("*")
        return v1 == v2 and v1 != str(0xc000)
    finally:
        l.kill()


@finding("B3 evaluate cpu.sp is unknown; Registers scope has no SP; completions offer cpu.cyc")
def _():
    l, c = session({"main.asm": SRC_S}, "t", [2])
    try:
        sp = c.ev("cpu.sp")
        comp = c.req("completions", {"text": "cpu.", "column": 4})["body"]["targets"]
        return "unknown identifier" in str(sp) and "SP" not in c.regs() and {"label": "cyc"} in comp
    finally:
        l.kill()


@finding("B4 continue on a breakpoint line reached by a step stops again without executing anything")
def _():
    l, c = session({"main.asm": SRC_S}, "t", [2, 3])
    try:
        c.req("next"); c.wait_event("stopped")
        r1 = c.regs()
        c.req("continue"); e = c.wait_event("stopped", 2)
        return isinstance(e, dict) and c.regs() == r1 and c.line() == 3
    finally:
        l.kill()


@finding("B5 next over a jsr runs through a breakpoint inside the subroutine")
def _():
    l, c = session({"main.asm": SRC_B, "lib.asm": LIB_B}, "t", [8, 18])
    try:
        c.req("next"); c.wait_event("stopped")
        return c.line() == 9
    finally:
        l.kill()


@finding("B6 setBreakpoints for lib.asm clears the breakpoints of main.asm")
def _():
    l, c = session({"main.asm": SRC_B, "lib.asm": LIB_B}, "t", [7])
    try:
        c.setbps([14])
        c.setbps([3], file="lib.asm")
        c.req("continue"); c.wait_event("stopped")
        in_lib = c.line() == 3
        c.req("continue")
        e = c.wait_event("stopped", 1.5)
        return in_lib and not isinstance(e, dict)
    finally:
        l.kill()


@finding("B7 setBreakpoints response does not match the request (lines without code dropped, macro line twice, macro call line gets none)")
def _():
    l, c = session({"main.asm": SRC_B, "lib.asm": LIB_B}, "t", [7])
    try:
        r = c.setbps([7, 12, 10, 3])
        lines = [b["line"] for b in r["body"]["breakpoints"]]
        return lines == [7, 3, 3]
    finally:
        l.kill()


def kills_adapter(fn):
    l, c = session({"main.asm": SRC_S}, "t", [2])
    try:
        r = fn(c)
        c.close(); time.sleep(0.3)
        try:
            c2 = Dap(l); ok = isinstance(c2.req("initialize", {"adapterID": "x"}, timeout=2), dict)
        except Exception:
            ok = False
        return r is None or r == "closed", ok
    finally:
        l.kill()


B8 = [
    ("B8a unknown DAP command panics (mos-core errors.rs:89 unimplemented for warnings); adapter dead afterwards", lambda c: c.req("frobnicate", {}, timeout=2)),
    ("B8b variables with variablesReference 99 panics; adapter dead afterwards", lambda c: c.req("variables", {"variablesReference": 99}, timeout=2)),
    ("B8c setBreakpoints without source.path panics; adapter dead afterwards", lambda c: c.req("setBreakpoints", {"source": {"name": "main.asm"}, "breakpoints": [{"line": 2}]}, timeout=2)),
    ("B8d setBreakpoints line 0 (linesStartAt1) panics; adapter dead afterwards", lambda c: c.req("setBreakpoints", {"source": {"path": c.lsp.dir + "/main.asm"}, "breakpoints": [{"line": 0}]}, timeout=2)),
    ("B8e completions at the end of the text with a 1-based column panics; adapter dead afterwards", lambda c: c.req("completions", {"text": "cpu.", "column": 5}, timeout=2)),
    ("B8f a non-request message from the client panics (protocol.rs seq()); adapter dead afterwards", lambda c: (c.raw(frame({"seq": 1, "type": "event", "event": "foo"})), c.req("threads", timeout=2))[1]),
]
for name, fn in B8:
    @finding(name)
    def _(fn=fn):
        no_answer, alive = kills_adapter(fn)
        return no_answer and not alive


@finding("B9 initialize without linesStartAt1 (protocol default true) is treated as 0-based: breakpoint one line late")
def _():
    d = mkproj({"main.asm": SRC_S}); l = Lsp(d); c = Dap(l)
    try:
        c.req("initialize", {"adapterID": "mos"})
        c.req("launch", {"workspace": d, "noDebug": False, "testRunner": {"testCaseName": "t"}})
        c.setbps([3])      # ldx #2
        c.req("configurationDone"); c.wait_event("stopped")
        return c.regs()["X"] == "2"     # ldx #2 has already been executed
    finally:
        l.kill()


@finding("B10 after the test ended next/pause still answer with stopped events and continue with continued")
def _():
    d = mkproj({"main.asm": SRC_S}); l = Lsp(d); c = Dap(l)
    try:
        c.start("t"); c.wait_event("terminated")
        c.events.clear()
        c.req("next"); e1 = c.wait_event("stopped", 1)
        c.req("continue"); e2 = c.wait_event("continued", 1)
        e3 = c.wait_event("terminated", 1)
        return isinstance(e1, dict) and isinstance(e2, dict) and not isinstance(e3, dict)
    finally:
        l.kill()


@finding("B11 Content-Length: 999999999999999 on the debug port aborts the whole mos lsp process")
def _():
    d = mkproj({"main.asm": SRC_S}); l = Lsp(d); c = Dap(l)
    try:
        c.raw(b"Content-Length: 999999999999999\r\n\r\n"); time.sleep(1)
        return l.p.poll() is not None and l.p.poll() != 0
    finally:
        l.kill()


@finding("B12 configurationDone with `arguments: {}` is refused, the machine never starts")
def _():
    d = mkproj({"main.asm": SRC_S}); l = Lsp(d); c = Dap(l)
    try:
        c.start("t", config_done=False)
        r = c.req("configurationDone", {})
        e = c.wait_event("terminated", 1.5)
        return r["success"] is False and not isinstance(e, dict)
    finally:
        l.kill()


# ---------------------------------------------------------------- (C) lifecycle
@finding("C1 stdin closed before `initialize`: exit status 1 (0 once initialized)")
def _():
    d = mkproj({"main.asm": SRC_S})
    p = subprocess.Popen([MOSBIN, "lsp", "--debug-adapter-port", str(free_port())], cwd=d, stdin=subprocess.PIPE, stdout=subprocess.PIPE, stderr=subprocess.DEVNULL)
    p.stdin.close()
    return p.wait(8) == 1

print("%d of %d reproduced" % (sum(RESULTS), len(RESULTS)))
