from dap import *
SRC = """.test "t" {
    lda #1
    ldx #2
    ldy #3
    brk
}
"""
def alive(l):
    try:
        c = Dap(l); r = c.req("initialize", {"adapterID": "x"}, timeout=2); c.close(); return isinstance(r, dict)
    except Exception as e:
        return False
def trial(name, fn):
    d = mkproj({"main.asm": SRC}); l = Lsp(d); c = Dap(l)
    c.start("t", bps=[2])
    c.wait_event("stopped")
    r = fn(c)
    c.close(); time.sleep(0.3)
    a = alive(l)
    rc = l.shutdown_exit()
    print(name, "| response:", (r if not isinstance(r, dict) else (r.get("success"), r.get("message"))), "| adapter alive afterwards:", a, "| lsp exit:", rc)
    l.kill()
trial("variablesReference=99", lambda c: c.req("variables", {"variablesReference": 99}, timeout=2))
trial("variablesReference=0", lambda c: c.req("variables", {"variablesReference": 0}, timeout=2))
trial("setBreakpoints no source.path", lambda c: c.req("setBreakpoints", {"source": {"name": "main.asm"}, "breakpoints": [{"line": 2}]}, timeout=2))
trial("setBreakpoints line 0", lambda c: c.req("setBreakpoints", {"source": {"path": c.lsp.dir + "/main.asm"}, "breakpoints": [{"line": 0}]}, timeout=2))
trial("setBreakpoints column 0", lambda c: c.req("setBreakpoints", {"source": {"path": c.lsp.dir + "/main.asm"}, "breakpoints": [{"line": 2, "column": 0}]}, timeout=2))
trial("completions column 50", lambda c: c.req("completions", {"text": "cpu.", "column": 50}, timeout=2))
trial("completions utf8", lambda c: c.req("completions", {"text": "éé", "column": 1}, timeout=2))
def resp(c):
    c.raw(frame({"seq": 1, "type": "response", "request_seq": 1, "success": True, "command": "runInTerminal"}))
    return c.req("threads", timeout=2)
trial("client sends a response message", resp)
def ev(c):
    c.raw(frame({"seq": 1, "type": "event", "event": "foo"}))
    return c.req("threads", timeout=2)
trial("client sends an event message", ev)
trial("unknown command", lambda c: c.req("frobnicate", {}, timeout=2))
trial("evaluate garbage", lambda c: c.req("evaluate", {"expression": "1 +"}, timeout=2))
trial("evaluate 1/0", lambda c: c.req("evaluate", {"expression": "1/0"}, timeout=2))
trial("evaluate shift", lambda c: c.req("evaluate", {"expression": "1 << 100"}, timeout=2))
trial("evaluate ram(-1)", lambda c: c.req("evaluate", {"expression": "ram16($ffff)"}, timeout=2))
trial("configurationDone with {}", lambda c: c.req("configurationDone", {}, timeout=2))
trial("setVariable A=300", lambda c: c.req("setVariable", {"variablesReference": 1, "name": "A", "value": "300"}, timeout=2))
