from dap import *
import dap, sys
SRC = """.test "t" {
    lda #1
    ldx #2
    brk
}
"""
d = mkproj({"main.asm": SRC})
l = Lsp.__new__(Lsp)
# custom start with stderr captured
l.dir = d; l.port = free_port()
l.p = subprocess.Popen([MOS, "-v", "-v", "-v", "lsp", "--debug-adapter-port", str(l.port)], cwd=d, stdin=subprocess.PIPE, stdout=subprocess.PIPE, stderr=open("/tmp/hunt/dbg-out/stderr.txt", "w"))
l.send({"jsonrpc": "2.0", "id": 0, "method": "initialize", "params": {"capabilities": {}, "rootUri": "file://" + d}})
l.read(); l.send({"jsonrpc": "2.0", "method": "initialized", "params": {}}); time.sleep(0.3)
c = Dap(l); c.start("t", bps=[2]); c.wait_event("stopped")
print(c.req(sys.argv[1], json.loads(sys.argv[2]), timeout=2))
print(c.req("threads", timeout=2))
print(l.shutdown_exit())
