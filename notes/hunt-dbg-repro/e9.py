from dap import *
SRC = """.const top = 100
data: .byte 7
.test "t" {
    .const inner = 5
    lda #1
    sta data
    jsr sub
    brk
}
sub: {
    .const insub = 9
loc: nop
    rts
}
"""
d = mkproj({"main.asm": SRC}); l = Lsp(d); c = Dap(l)
c.start("t", bps=[5]); c.wait_event("stopped")
def locs(): return {v["name"]: v["value"] for v in c.req("variables", {"variablesReference": 3})["body"]["variables"]}
print("locals@5 before evaluate:", locs())
print("eval inner", c.ev("inner"), "top", c.ev("top"), "ram(data)", c.ev("ram(data)"), "insub", c.ev("insub"), "sub.insub", c.ev("sub.insub"), "cpu.a", c.ev("cpu.a"), "carry", c.ev("cpu.flags.carry"), "intr", c.ev("cpu.flags.interrupt_disable"))
print("locals@5 after evaluate:", locs())
c.req("next"); c.wait_event("stopped"); c.req("next"); c.wait_event("stopped")
print("line", c.line(), "ram(data)", c.ev("ram(data)"), "cpu.a", c.ev("cpu.a"))
print("setVariable A=$ff:", c.req("setVariable", {"variablesReference": 1, "name": "A", "value": "$ff"}).get("body"), "cpu.a", c.ev("cpu.a"), c.regs())
print("flags:", {v["name"]: v["value"] for v in c.req("variables", {"variablesReference": 2})["body"]["variables"]})
print("hex regs:", {v["name"]: v["value"] for v in c.req("variables", {"variablesReference": 1, "format": {"hex": True}})["body"]["variables"]})
c.req("stepIn"); c.wait_event("stopped"); print("in sub line", c.line(), "locals:", locs(), "eval insub", c.ev("insub"), "inner", c.ev("inner"))
print("completions 'cpu.':", c.req("completions", {"text": "cpu.", "column": 4})["body"])
print("completions 'cpu.' col 5 (1-based client):", c.req("completions", {"text": "cpu.", "column": 5}, timeout=2))
print(l.shutdown_exit())
