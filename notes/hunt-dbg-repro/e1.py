from dap import *
SRC = """.test "t" {
    lda #1
    jsr sub
    ldx #2
    .assert cpu.a == 99 "boom"
    ldy #3
    brk
}
sub: {
    nop
    inx
    rts
}
"""
d = mkproj({"main.asm": SRC})
l = Lsp(d)
c = Dap(l)
print("launch", c.start("t", bps=[2]))
print("stopped", c.wait_event("stopped"))
print("line", c.line(), "a", c.ev("cpu.a"), "pc", c.ev("*"), c.regs())
print(c.req("next")); print(c.wait_event("stopped")); print("line", c.line(), c.regs(), "pc", c.ev("*"))
print(c.req("next")); print(c.wait_event("stopped")); print("line after next over jsr", c.line(), c.regs())
print(c.req("next")); print(c.wait_event("stopped")); print("line", c.line(), c.regs())
print(c.req("next")); print(c.wait_event("stopped")); print("line", c.line(), c.regs())
print(c.req("next")); print(c.wait_event("stopped")); print("line", c.line(), c.regs())
print(c.req("next")); print(c.wait_event("stopped")); print("line", c.line(), c.regs())
print(c.req("continue"))
print(c.wait_event("output")); print(c.wait_event("terminated"))
print(l.shutdown_exit())
