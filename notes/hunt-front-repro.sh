#!/bin/bash
# usage: repro.sh <checkout>
# Recreates each finding's project in a temp dir, runs mos and prints one line per finding.
CK=${1:?usage: repro.sh <checkout>}
CK=$(cd "$CK" && pwd)
MOS=$CK/target/debug/mos
[ -x "$MOS" ] || MOS=$CK/target/release/mos
[ -x "$MOS" ] || { (cd "$CK" && cargo build --offline >/dev/null 2>&1); MOS=$CK/target/debug/mos; }
[ -x "$MOS" ] || { echo "no mos binary in $CK/target"; exit 2; }
TMP=$(mktemp -d /tmp/front-repro.XXXXXX)
trap 'rm -rf "$TMP"' EXIT

OUT=""; RC=0
proj() { # proj <name> : fresh project dir with default mos.toml, cd into it
  P=$TMP/$1; rm -rf "$P"; mkdir -p "$P"; cd "$P"; printf '[build]\nentry = "main.asm"\n' > mos.toml; }
run() { # run <args...> : runs mos with 10 s timeout in cwd, sets OUT and RC
  OUT=$(timeout 10 "$MOS" --no-color -e Short "$@" 2>&1); RC=$?; }
prg() { xxd -p target/main.prg 2>/dev/null | tr -d '\n'; }
verdict() { # verdict <id> <description> <0|1>
  if [ "$3" = 1 ]; then echo "$1 REPRODUCED      $2"; else echo "$1 not reproduced  $2 (rc=$RC)"; fi; }
has() { case "$OUT" in *"$1"*) return 0;; *) return 1;; esac; }
crashed() { [ $RC -ge 128 ] || has "overflowed its stack" || has "panicked"; }

# F01 exponential parse time: nested function calls (valid syntax)
proj f01; python3 -c "n=40; open('main.asm','w').write('.byte '+'a('*n+'1'+')'*n+'\n')"
run build; verdict F01 "nested calls a(a(a(...))) depth 40: parser does not terminate" $([ $RC = 124 ] && echo 1 || echo 0)

# F02 exponential parse time: unclosed parentheses
proj f02; python3 -c "n=40; open('main.asm','w').write('lda '+'('*n+'1\n')"
run build; verdict F02 "40 unclosed parentheses: parser does not terminate" $([ $RC = 124 ] && echo 1 || echo 0)

# F03 stack overflow: nested blocks
proj f03; python3 -c "n=50000; open('main.asm','w').write('{'*n+'nop'+'}'*n+'\n')"
run build; verdict F03 "deeply nested { } blocks: stack overflow abort" $(crashed && echo 1 || echo 0)

# F04 stack overflow: nested parentheses
proj f04; python3 -c "n=50000; open('main.asm','w').write('.byte '+'('*n+'1'+')'*n+'\n')"
run build; verdict F04 "deeply nested parentheses: stack overflow abort" $(crashed && echo 1 || echo 0)

# F05 stack overflow: long flat sum
proj f05; python3 -c "open('main.asm','w').write('.byte 1'+'+1'*200000+'\n')"
run build; verdict F05 "flat expression 1+1+1+... : stack overflow abort" $(crashed && echo 1 || echo 0)

# F06 mnemonics/numbers glued to what follows are accepted silently
proj f06; printf '.const x = 5\nldax\nlda #1nop\n.byte $12inx\n' > main.asm
run build; verdict F06 "'ldax', 'lda #1nop', '.byte \$12inx' assemble without diagnostics" $([ $RC = 0 ] && [ "$(prg)" = 0020a505a901ea12e8 ] && echo 1 || echo 0)

# F07 macro whose name starts with a mnemonic cannot be invoked
proj f07; printf '.macro stamp() { nop }\nstamp()\n' > main.asm
run build; verdict F07 "macro 'stamp' is tokenised as 'sta mp()'" $(has "unknown function: mp" && echo 1 || echo 0)

# F08 .text operand starting with an encoding name
proj f08; printf '.const asciitable = "hi"\n.text asciitable\n' > main.asm
run build; verdict F08 "'.text asciitable' is tokenised as '.text ascii table'" $(has "unknown identifier: table" && echo 1 || echo 0)

# F09 flat operator precedence
proj f09; printf '.byte 5 == 2 + 3\n.if 1 == 1 && 2 == 2 { nop }\n' > main.asm
run build; verdict F09 "'5 == 2 + 3' gives 3, '1 == 1 && 2 == 2' is false" $([ "$(prg)" = 002003 ] && echo 1 || echo 0)

# F10 UTF-8 BOM
proj f10; printf '\xef\xbb\xbfnop\n' > main.asm
run build; verdict F10 "file starting with a UTF-8 BOM is rejected" $([ $RC = 1 ] && has "unexpected" && echo 1 || echo 0)

# F11 invalid UTF-8 reported as missing file
proj f11; printf 'nop\xff\n' > main.asm
run build; verdict F11 "invalid UTF-8 in an existing file is reported as 'could not find'" $(has "could not find" && echo 1 || echo 0)

# F12 formatter panics on large margins
proj f12; printf '[build]\nentry = "main.asm"\n[formatting]\nwhitespace.label-margin = 65536\n' > mos.toml; echo nop > main.asm
run format; verdict F12 "whitespace.label-margin = 65536: mos format panics" $(has "panicked" && echo 1 || echo 0)

# F13 mos format resolves the entry against the cwd, not the project root
proj f13; mkdir sub; printf 'lda   #1\n' > main.asm; cd sub
run build; B=$RC; run format; verdict F13 "mos format from a subdirectory cannot find the entry (mos build can)" $([ $B = 0 ] && [ $RC = 1 ] && has "could not find 'main.asm'" && echo 1 || echo 0)

# F14 tests in imported files
proj f14; printf '.import * from "x.asm"\n' > main.asm; printf '.test "imp" { brk }\n' > x.asm
run test; verdict F14 "passing test in an imported file: 'Test case not found', exit 1" $([ $RC = 1 ] && has "Test case not found: imp" && echo 1 || echo 0)

# F15 non-terminating test
proj f15; printf '.test "inf" { l: jmp l }\n' > main.asm
run test; verdict F15 "test that loops forever: mos test never returns" $([ $RC = 124 ] && echo 1 || echo 0)

# F16 nested test ignored
proj f16; printf '.test "a" { nop\n .test "b" { .assert 0 }\n brk }\n' > main.asm
run test; verdict F16 "nested failing .test is silently ignored, exit 0" $([ $RC = 0 ] && has "1 passed; 0 failed" && echo 1 || echo 0)

# F17 verbosity overflow (debug builds)
proj f17; echo nop > main.asm
OUT=$(timeout 10 "$MOS" $(printf -- '-v %.0s' $(seq 255)) version 2>&1); RC=$?
verdict F17 "255 x -v: 'attempt to add with overflow' panic (debug build)" $(has "overflow" && echo 1 || echo 0)

# F18 absolute import path
proj f18; mkdir sub; echo nop > sub/x.asm; printf '.import * from "%s/sub/x.asm"\n' "$P" > main.asm
run build; verdict F18 "absolute import path is appended to the importing directory" $(has "file not found" && has "$P$P" && echo 1 || echo 0)

# F19 listing name collision
proj f19; printf '[build]\nentry = "main.asm"\nlisting = true\n' > mos.toml; mkdir lib
printf 'lda #1\n.import * from "lib/main.asm"\n' > main.asm; printf 'ldx #2\n' > lib/main.asm
run build; N=$(ls target/*.lst 2>/dev/null | wc -l); A=$(cat target/*.lst 2>/dev/null | grep -c 'lda #1'); B=$(cat target/*.lst 2>/dev/null | grep -c 'ldx #2')
verdict F19 "main.asm and lib/main.asm share one listing file; one listing is lost" $([ $RC = 0 ] && [ "$N" = 1 ] && [ $((A+B)) = 1 ] && echo 1 || echo 0)

# F20 duplicate diagnostics
proj f20; printf '.byte 99999999999999999999999\n' > main.asm
run build; verdict F20 "same 'does not fit in 64 bits' diagnostic printed twice" $([ "$(echo "$OUT" | grep -c 'does not fit')" = 2 ] && echo 1 || echo 0)

# F21 error in an imported file swallowed after an unterminated comment
proj f21; printf '.import * from "x.asm"\nnop /* unterminated' > main.asm; printf 'lda )\n' > x.asm
run build; verdict F21 "unterminated comment in main.asm hides the parse error of x.asm" $(has "unterminated block comment" && ! has "x.asm" && echo 1 || echo 0)

# F22 mos version needs a valid mos.toml; toml errors do not name the file
proj f22; printf '[build\n' > mos.toml
run version; verdict F22 "mos version fails on a broken mos.toml; message lacks the file name" $([ $RC = 1 ] && ! has "mos.toml" && echo 1 || echo 0)

# F23 number prefix separated from its digits
proj f23; printf 'lda $ /* c */ 10\nlda %% 11\n' > main.asm
run build; verdict F23 "'\$ /* c */ 10' and '% 11' are accepted as numbers" $([ $RC = 0 ] && [ "$(prg)" = 0020a510a503 ] && echo 1 || echo 0)

# F24 colour escapes written to a pipe
proj f24; printf '.test "t" { brk }\n' > main.asm
OUT=$(timeout 10 "$MOS" test 2>&1 | cat -v); RC=$?
verdict F24 "mos test writes ANSI colour escapes when output is not a terminal" $(has '^[[' && echo 1 || echo 0)

# F25 output-filename escapes the target directory
proj f25; mkdir inner; cd inner; printf '[build]\nentry = "main.asm"\noutput-filename = "../../escaped.prg"\n' > mos.toml; echo nop > main.asm
run build; verdict F25 "output-filename '../../escaped.prg' is written outside target and project" $([ -f "$P/escaped.prg" ] && echo 1 || echo 0)

# F26 mos init produces a project that does not build
proj f26; rm mos.toml
run init; I=$RC; run build; verdict F26 "fresh dir: mos init succeeds, mos build then fails (no main.asm created)" $([ $I = 0 ] && [ $RC = 1 ] && has "could not find" && echo 1 || echo 0)

# F27 [test] name that matches nothing
proj f27; printf '[build]\nentry = "main.asm"\n[test]\nname = "nonexistent"\n' > mos.toml; printf '.test "t" { .assert 0 }\n' > main.asm
run test; verdict F27 "[test] name matching no test: 'ok. 0 passed', exit 0" $([ $RC = 0 ] && has "0 passed; 0 failed" && echo 1 || echo 0)
