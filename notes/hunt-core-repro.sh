#!/bin/bash
# usage: repro.sh <checkout>
# Recreates every project of findings.md in a temp dir, runs `mos build` and prints one line per finding.
CHECKOUT=${1:?usage: repro.sh <checkout>}
MOS=$CHECKOUT/target/debug/mos
[ -x "$MOS" ] || (cd "$CHECKOUT" && cargo build --offline >/dev/null 2>&1)
[ -x "$MOS" ] || { echo "no mos binary at $MOS"; exit 2; }
export NO_COLOR=1
TMP=$(mktemp -d)
trap 'rm -rf "$TMP"' EXIT

# new <id>: creates project dir with default mos.toml (listing + vice symbols) and cds into it
new() {
  P=$TMP/$1; mkdir -p "$P"; cd "$P" || exit 2
  printf '[build]\nentry = "main.asm"\nlisting = true\nsymbols = ["vice"]\n' > mos.toml
}
# build: runs mos build (10 s limit), sets RC and OUT
build() { OUT=$(timeout ${TMO:-10} "$MOS" build 2>&1); RC=$?; }
hex() { xxd -p "$1" 2>/dev/null | tr -d '\n'; }
verdict() { if [ "$2" = 1 ]; then echo "$1: REPRODUCED"; else echo "$1: not reproduced"; fi; }
yes() { [ "$@" ] && echo 1 || echo 0; }

# F01 .align at an already aligned pc emits a full block of padding
new F01; printf '.align 256\nrts\n' > main.asm; build
verdict F01-align-when-aligned $( [ $RC = 0 ] && [ "$(stat -c %s target/main.prg)" = 259 ] && echo 1 )

# F02 division / modulo by zero evaluates to 0
new F02; printf '.byte 1/0, 5 %% 0\n' > main.asm; build
verdict F02-division-by-zero $( [ $RC = 0 ] && [ "$(hex target/main.prg)" = 00200000 ] && echo 1 )

# F03 out-of-range data values and operands are truncated
new F03; printf '.byte 256\n.word 65536\nlda $12345\nlda -1\nlda #-200\njmp $1ffff\n' > main.asm; build
verdict F03-out-of-range-truncated $( [ $RC = 0 ] && [ "$(hex target/main.prg)" = 0020000000ad4523a5ffa9384cffff ] && echo 1 )

# F04 .var inside a loop continues from the value of the previous pass
new F04; printf '.var i = 0\n.loop 3 {\n  .byte i\n  .var i = i + 1\n}\n' > main.asm; build
verdict F04-var-in-loop-stale $( [ $RC = 0 ] && [ "$(hex target/main.prg)" != 0020000102 ] && echo 1 )

# F05 a second .define segment with the same name drops the bytes of the first
new F05; cat > main.asm <<'EOF'
.define segment {
 name = "a"
 start = $1000
}
nop
first: lda #1
.define segment {
 name = "a"
 start = $2000
}
second: rts
EOF
build
verdict F05-duplicate-segment $( [ $RC = 0 ] && [ "$(hex target/main.prg)" = 002060 ] && grep -q 'C:1001 .first' target/main.vs && echo 1 )

# F06 a second .define bank with the same name is accepted
new F06; cat > main.asm <<'EOF'
.define bank {
 name = "b"
 create-segment = 1
}
.define bank {
 name = "b"
 size = 2
 fill = 7
}
.segment "b" { nop }
EOF
build
verdict F06-duplicate-bank $( [ $RC = 0 ] && echo 1 )

# F07 a block imported by name resolves outer names in the importing file
new F07; printf '.const k = 9\n.import foo from "other.asm"\njsr foo\n' > main.asm
printf '.const k = 5\nfoo: {\n lda #k\n rts\n}\n' > other.asm; build
verdict F07-import-scope-leak $( [ $RC = 0 ] && [ "$(hex target/main.prg)" = 0020a90960200020 ] && echo 1 )

# F07b same cause: a helper label of the imported file is not found from inside the imported block
new F07b; printf '.import foo from "other.asm"\njsr foo\n' > main.asm
printf 'helper: rts\nfoo: {\n jsr helper\n rts\n}\n' > other.asm; build
verdict F07b-import-helper-unknown $( [ $RC != 0 ] && echo "$OUT" | grep -q 'unknown identifier: helper' && echo 1 )

# F08 undefined symbol in a .file name is ignored
new F08; printf '.file "{nope}data.bin"\n' > main.asm; printf 'AB' > data.bin; build
verdict F08-file-interpolation-undefined $( [ $RC = 0 ] && echo 1 )

# F09 errors inside .test blocks are not seen by mos build
new F09; printf 'nop\n.test "t" {\n lda #undefined_sym\n bogus_macro()\n lda (1),x\n}\n' > main.asm; build
verdict F09-test-block-unchecked $( [ $RC = 0 ] && echo 1 )

# F10 string as segment start is taken as 0
new F10; printf '.define segment {\n name = "a"\n start = "hello"\n}\nl: nop\n' > main.asm; build
verdict F10-segment-start-string $( [ $RC = 0 ] && [ "$(hex target/main.prg)" = 0000ea ] && echo 1 )

# F11 bank fill outside 0..255 is truncated
new F11; cat > main.asm <<'EOF'
.define bank {
 name = "b"
 fill = 256
 size = 4
}
.define segment {
 name = "a"
 start = $1000
 bank = "b"
}
nop
EOF
build
verdict F11-fill-out-of-range $( [ $RC = 0 ] && [ "$(hex target/main.prg)" = 0010ea000000 ] && echo 1 )

# F12 diagnostics without any location
new F12; cat > main.asm <<'EOF'
.define bank {
 name = "b"
 size = 0
}
.define segment {
 name = "a"
 start = $1000
 bank = "nonexistent"
}
nop
EOF
build; A=$( [ $RC != 0 ] && ! echo "$OUT" | grep -q 'main.asm' && echo 1 )
cat > main.asm <<'EOF'
.define bank {
 name = "b"
 size = 0
}
.define segment {
 name = "a"
 start = $1000
 bank = "b"
}
nop
EOF
build; B=$( [ $RC != 0 ] && echo "$OUT" | grep -q 'exceeds maximum size' && ! echo "$OUT" | grep -q 'main.asm' && echo 1 )
verdict F12-diagnostics-without-location $( [ "$A$B" = 11 ] && echo 1 )

# F13 overlapping segments in one bank overwrite each other
new F13; cat > main.asm <<'EOF'
.define segment {
 name = "a"
 start = $1000
}
.define segment {
 name = "b"
 start = $1001
}
.segment "a" { .byte 1,2,3,4 }
.segment "b" { .byte $aa,$bb }
EOF
build
verdict F13-overlapping-segments $( [ $RC = 0 ] && [ "$(hex target/main.prg)" = 001001aabb04 ] && echo 1 )

# F14 duplicate config keys and nested-map values are ignored
new F14; printf '.define segment {\n name = "a"\n start = $1000\n start = $3000\n pc = { x = 1 }\n}\nl: nop\n' > main.asm; build
verdict F14-duplicate-config-key $( [ $RC = 0 ] && echo 1 )

# F15 output file names escape the target directory and may overwrite the source
new F15; printf 'nop\n' > main.asm; printf '[build]\nentry = "main.asm"\noutput-filename = "../main.asm"\n' > mos.toml; build
A=$( [ $RC = 0 ] && [ "$(hex main.asm)" = 0020ea ] && echo 1 )
new F15b; printf '.define bank {\n name = "b"\n filename = "../main.asm"\n}\n.define segment {\n name = "s"\n start = $1000\n bank = "b"\n}\nnop\n' > main.asm; build
B=$( [ $RC = 0 ] && [ "$(hex main.asm)" = 0010ea ] && echo 1 )
verdict F15-output-overwrites-source $( [ "$A$B" = 11 ] && echo 1 )

# F16 listings of files with the same stem overwrite each other
new F16; mkdir a b; printf '.import * from "a/util.asm"\n.import * from "b/util.asm"\n' > main.asm
printf 'ua: lda #1\n' > a/util.asm; printf 'ub: lda #2\n' > b/util.asm; build
verdict F16-listing-stem-collision $( [ $RC = 0 ] && [ "$(cat target/util.lst 2>/dev/null | grep -c 'u[ab]:')" = 1 ] && echo 1 )

# F17 output written although the build fails
new F17; cat > main.asm <<'EOF'
.define bank {
 name = "one"
 filename = "one.bin"
}
.define bank {
 name = "two"
 filename = "nodir/two.bin"
}
.define segment {
 name = "a"
 start = $1000
 bank = "one"
}
.define segment {
 name = "b"
 start = $1000
 bank = "two"
}
.segment "a" { nop }
.segment "b" { rts }
EOF
build; A=$( [ $RC != 0 ] && [ -f target/one.bin ] && echo 1 )
new F17b; printf 'nop\n' > main.asm; printf '[build]\nentry = "main.asm"\nlisting = true\n[formatting.listing]\nnum-bytes-per-line = 0\n' > mos.toml; build
B=$( [ $RC != 0 ] && [ -f target/main.prg ] && echo 1 )
verdict F17-output-on-failure $( [ "$A$B" = 11 ] && echo 1 )

# F18 .vs lists imported labels twice, once below an internal scope name
new F18; printf '.import * from "lib.asm"\n' > main.asm; printf 'ua: lda #1\n' > lib.asm; build
verdict F18-vs-internal-scope-names $( [ $RC = 0 ] && grep -q '\$scope_1.ua' target/main.vs && echo 1 )

# F19 redefinition with the same value is accepted
new F19; printf 'a:\na: nop\n.const c = 1\n.const c = 1\n lda a\n' > main.asm; build
verdict F19-same-value-redefinition $( [ $RC = 0 ] && echo 1 )

# F20 listing shows the bytes of nested scopes of a macro at the definition, with one address
new F20; printf '.macro m() {\n lda #1\n {\n  lda #2\n }\n}\nm()\nrts\nm()\n' > main.asm; build
verdict F20-listing-macro-nested-scope $( [ $RC = 0 ] && grep -q '2002: A9 02 A9 02' target/main.lst && echo 1 )

# F21 '-' and '+' inside a loop body keep the addresses of the first iteration
new F21; printf '.loop 2 {\n dex\n bne -\n beq +\n nop\n}\n' > main.asm; build
verdict F21-loop-block-symbols $( [ $RC = 0 ] && [ "$(hex target/main.prg)" = 0020cad0fdf001eacad0f7f0fbea ] && echo 1 )

# F22 negative loop count is accepted
new F22; printf '.loop -1 { nop }\nrts\n' > main.asm; build
verdict F22-negative-loop-count $( [ $RC = 0 ] && echo 1 )

# F23 stack overflow on a long expression (evaluator) and on deep nesting (parser)
new F23; python3 -c "print('.byte ' + '+'.join(['1']*10000))" > main.asm; build
A=$( [ $RC = 134 ] && echo 1 )
new F23b; python3 -c "print('{'*1000 + ' nop ' + '}'*1000)" > main.asm; build
B=$( [ $RC = 134 ] && echo 1 )
verdict F23-stack-overflow-expression "$A"
verdict F23b-stack-overflow-nesting "$B"

# F24 segment names that are no identifiers are accepted
new F24; printf '.define segment {\n name = ""\n start = $1000\n}\nnop\n' > main.asm; build; A=$RC
printf '.define segment {\n name = "super"\n start = $1000\n}\nnop\n' > main.asm; build
verdict F24-odd-segment-names $( [ $A = 0 ] && [ $RC = 0 ] && echo 1 )

# F25 a .var used in front of its first definition has the last value of the previous pass
new F25; printf 'lda #v\n.var v = 1\nlda #v\n.var v = 2\n' > main.asm; build
verdict F25-var-before-definition $( [ $RC = 0 ] && [ "$(hex target/main.prg)" = 0020a902a901 ] && echo 1 )

# F26 gaps inside a segment are zero, not the fill value of the bank
new F26; cat > main.asm <<'EOF'
.define bank {
 name = "b"
 fill = $ff
 size = 8
}
.define segment {
 name = "a"
 start = $1000
 bank = "b"
}
nop
* = $1004
rts
EOF
build
verdict F26-gap-ignores-fill $( [ $RC = 0 ] && [ "$(hex target/main.prg)" = 0010ea00000060ffffff ] && echo 1 )

# F27 label at a negative target address
new F27; cat > main.asm <<'EOF'
.define segment {
 name = "a"
 start = $1000
 pc = $0010
}
* = $0800
l:
* = $1000
.word l
EOF
build
verdict F27-negative-target-label $( [ $RC = 0 ] && grep -q 'FFFFFFFFFFFFF810' target/main.vs && echo 1 )

# F28 unary operators and byte modifiers on strings are ignored
new F28; printf '.const s = "ab"\n.text !s\n.text <s\n.text -s\n' > main.asm; build
verdict F28-unary-on-string $( [ $RC = 0 ] && [ "$(hex target/main.prg)" = 0020616261626162 ] && echo 1 )

# F29 characters without petscii equivalent become $7F
new F29; printf '.text petscii "A\xc3\xa9~"\n' > main.asm; build
verdict F29-petscii-unmappable $( [ $RC = 0 ] && [ "$(hex target/main.prg)" = 0020617f7f ] && echo 1 )

# F30 assembly time is quadratic in the number of labels (8000 labels > 10 s in a debug build)
new F30; python3 -c "
for i in range(8000): print('l%d: nop' % i)" > main.asm; build
verdict F30-quadratic-labels $( [ $RC = 124 ] && echo 1 )

# F31 target directory is created although the build fails
new F31; printf 'lda #nope\n' > main.asm; build
verdict F31-target-dir-on-failure $( [ $RC != 0 ] && [ -d target ] && echo 1 )

# F32 a symbol that only exists in an earlier pass is still resolved
new F32; printf '.define segment {\n name = "a"\n start = $1000\n}\n.if !defined(x) { y: nop }\n.const x = 1\nlda y\n' > main.asm; build
verdict F32-stale-symbol-resolved $( [ $RC = 0 ] && [ "$(hex target/main.prg)" = 0010ad0010 ] && ! grep -q '\.y' target/main.vs && echo 1 )
