from t4 import *
import glob
print("codegen error"); check('lda unknown\n   nop\n')
print("error in other file"); check('.import * from "b.asm"\n   nop\n',{"b.asm":"lda unknown\n"})
print("tabs/comments"); check('\tlda #1\t// c\n\t\t/* x\n y */\nfoo:\tnop // z\n')
print("non-ascii comments"); check('lda #1 // ü😀ü\n      // 😀\n nop // é\n')
print("data"); check('.byte 1,2,\n 3\n.word $1234 ,  5\n.text   petscii "héllo"\n')
print("trailing ws no newline"); check('nop   ')
print("only comment"); check('// hi')
print("nested braces"); check('{{{nop}}}\n{ }\n')
print("if else"); check('.if 1 {nop} else {rts}\n.if defined(a) { .if 0 { nop } }\n')
for f in glob.glob("/tmp/hunt/lsp/examples/**/*.asm",recursive=True)[:6]:
    src=open(f).read()
    if ".import" in src or ".file" in src: continue
    print(f); check(src)
