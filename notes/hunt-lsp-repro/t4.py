from lspc import *
import json, subprocess
MOS="/tmp/hunt/lsp/target/debug/mos"
def check(src, extra=None, name="main.asm", verbose=False):
    files={"main.asm":src}; files.update(extra or {})
    root=tmp()
    s=Lsp(MOS,root,files); s.init(); s.open(name,files[name]); 
    r=s.doc("formatting",name,options={"tabSize":4,"insertSpaces":True})
    s.stop()
    p=subprocess.run([MOS,"format"],cwd=root,capture_output=True,text=True)
    disk=open(os.path.join(root,name),newline="").read()
    if not isinstance(r,dict) or r.get("result") is None:
        print("LSP:",str(r)[:200],"| mos format rc",p.returncode,p.stderr[-200:], "changed" if disk!=files[name] else "unchanged"); return
    edits=r["result"]
    # check sorted / non-overlapping
    prev=None; bad=False
    for e in edits:
        a=(e["range"]["start"]["line"],e["range"]["start"]["character"]); b=(e["range"]["end"]["line"],e["range"]["end"]["character"])
        if b<a or (prev and a<prev): bad=True
        prev=b
    out=apply_edits(files[name],edits)
    print("SAME" if out==disk else "DIFF", "overlap!" if bad else "", "rc",p.returncode, p.stderr[-200:])
    if out!=disk or verbose:
        print(" src :",repr(files[name])); print(" lsp :",repr(out)); print(" disk:",repr(disk)); print(" edits:",json.dumps(edits)[:600])
if __name__=="__main__":
    check('/* \U0001F600 */ foo: nop\n.const s = "\U0001F600\U0001F600" lda foo\n',verbose=True)
    check('foo: nop\nlda foo\n')
    check('lda #1 // \U0001F600 x\n  nop\n\n\n\nrts')
    check('.macro m(a) {lda #a}\nm(1)\n.if 1 { nop } else { rts }\n.loop 3 { nop }\n')
    check('a: {\n nop\n}\n\n\n// c\n')
    check('')
    check('\n\n')
    check('nop\r\nnop\r\n')
    check('.import * from "b.asm"\nlda foo',{"b.asm":"foo:   nop\n\n\n"})
    check('.import * from "b.asm"\nlda foo',{"b.asm":"foo:   nop\n\n\n"},name="b.asm")
    check('.test t { nop\n.assert 1==1 }\n')
    check('.segment "a" { nop }\n.define segment { name = "a"\nstart=$1000 }\n')
