from lspc import *
import json
MOS="/tmp/hunt/lsp/target/debug/mos"
src='.test t { nop\n.assert 1==1 }\n'
s=Lsp(MOS,tmp(),{"main.asm":src}); s.init(); s.open("main.asm",src); s.sync(); print(s.diags())
print(s.doc("codeLens","main.asm"))
print(s.doc("formatting","main.asm",options={"tabSize":4,"insertSpaces":True}))
s.stop()
import subprocess
print(subprocess.run([MOS,"build"],cwd=s.root,capture_output=True,text=True))
