from ren import *
from nav import nav
import subprocess
def T(title,files,f,needle,nth,off,new):
    print("==",title); return check(files,f,needle,nth,off,new)
T("file directive interp",{"main.asm":'.const nm = "x"\n.file "{nm}.bin"\n',"x.bin":"A"},"main.asm","nm",0,0,"name")
files={"main.asm":'v: .byte 1\n.test "t" { lda v\n .assert a == v "v is {v}"\n brk }\n'}
nav(files,[("main.asm","lda v",0,4),("main.asm","v:",0,0)],build=False)
def mtest(files):
    root=tmp()
    for k,v in files.items(): open(os.path.join(root,k),"w").write(v)
    open(os.path.join(root,"mos.toml"),"w").write('[build]\nentry = "main.asm"\n')
    p=subprocess.run([MOS,"test"],cwd=root,capture_output=True,text=True); return p.returncode, re.sub(r"\x1b\[[0-9;]*m","",p.stdout)[-200:].replace("\n"," / ")
print(mtest(files))
nf=rename(files,"main.asm","v:",0,0,"val",quiet=True); print(nf); print(mtest(nf))
