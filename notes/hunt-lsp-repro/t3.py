from lspc import *
import json
MOS="/tmp/hunt/lsp/target/debug/mos"
def fresh(files=None, **kw):
    s=Lsp(MOS,tmp(),files or {"main.asm":"foo: nop\nlda foo\n"},**kw); return s
def J(r): 
    return json.dumps(r.get("result") if isinstance(r,dict) and "result" in r else r)[:1500]
# astral chars before symbol
src='/* \U0001F600 */ foo: nop\n.const s = "\U0001F600\U0001F600" lda foo\n'
s=fresh({"main.asm":src}); s.init(); s.open("main.asm",src); s.sync(); print("diag",s.diags())
# 'foo' def on line 0: utf16 col = 3+2+4 = "/* " 3, emoji 2, " */ " 4 => 9 ; chars => 8
print("def@utf16 col of usage", J(s.pos("definition","main.asm",1,len('.const s = "')+4+len('" lda '))))
print("def@char col", J(s.pos("definition","main.asm",1,len('.const s = "')+2+len('" lda '))))
print("refs", J(s.pos("references","main.asm",0,9,context={"includeDeclaration":True})))
print("highlight", J(s.pos("documentHighlight","main.asm",0,9)))
print("prepRename", J(s.pos("prepareRename","main.asm",0,9)))
print("rename", J(s.pos("rename","main.asm",0,9,newName="bar")))
print("semtok", J(s.doc("semanticTokens/full","main.asm")))
print("docsym", J(s.doc("documentSymbol","main.asm")))
print("fmt", J(s.doc("formatting","main.asm",options={"tabSize":4,"insertSpaces":True})))
s.stop()
# diagnostics col with astral
src='/* \U0001F600 */ lda unknown\n'
s=fresh({"main.asm":src}); s.init(); s.open("main.asm",src); s.sync(); print("diag",s.diags()); s.stop()
