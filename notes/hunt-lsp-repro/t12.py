from lspc import *
import json, subprocess
MOS="/tmp/hunt/lsp/target/debug/mos"
def sd(s): 
    s.sync(); return {k.rsplit("/",1)[1]:v for k,v in s.diags().items()}
print("A import directory")
files={"main.asm":'lda unknown\n.import * from "sub"\n',"sub/x.asm":"nop\n"}
s=Lsp(MOS,tmp(),files); s.init(); s.open("main.asm",files["main.asm"]); print(sd(s), s.notes); print(s.doc("semanticTokens/full","main.asm")); print(s.alive()); s.stop()
print(subprocess.run([MOS,"build"],cwd=s.root,capture_output=True,text=True).stdout[:300])
print("A2 good, then import directory")
s=Lsp(MOS,tmp(),files); s.init(); s.open("main.asm","lda unknown\n"); print(sd(s)); s.change("main.asm",files["main.asm"]); print(sd(s)); s.stop()
print("B import non-utf8")
root=tmp(); 
s=Lsp(MOS,root,{"main.asm":'lda unknown\n.import * from "b.asm"\n'}); open(os.path.join(root,"b.asm"),"wb").write(b"nop \xff\xfe\n"); s.init(); s.open("main.asm",'lda unknown\n.import * from "b.asm"\n'); print(sd(s)); s.stop()
print(subprocess.run([MOS,"build"],cwd=s.root,capture_output=True,text=True).stdout[:300])
