import json, os, subprocess, sys, tempfile, threading, time, queue, shutil


class Lsp:
    def __init__(self, mos, root, files=None, toml='[build]\nentry = "main.asm"\n'):
        self.root = root
        os.makedirs(root, exist_ok=True)
        if toml is not None:
            open(os.path.join(root, "mos.toml"), "w").write(toml)
        for k, v in (files or {}).items():
            p = os.path.join(root, k)
            os.makedirs(os.path.dirname(p), exist_ok=True)
            open(p, "w", newline="").write(v)
        self.p = subprocess.Popen([mos, "lsp"], cwd=root, stdin=subprocess.PIPE,
                                  stdout=subprocess.PIPE, stderr=subprocess.PIPE)
        self.q = queue.Queue()
        self.err = []
        threading.Thread(target=self._rd, daemon=True).start()
        threading.Thread(target=self._rderr, daemon=True).start()
        self.id = 0
        self.notes = []

    def _rderr(self):
        for l in self.p.stderr:
            self.err.append(l.decode(errors="replace"))

    def _rd(self):
        f = self.p.stdout
        while True:
            n = None
            while True:
                l = f.readline()
                if not l:
                    self.q.put(None)
                    return
                l = l.strip()
                if not l:
                    break
                if l.lower().startswith(b"content-length:"):
                    n = int(l.split(b":")[1])
            b = f.read(n)
            self.q.put(json.loads(b))

    def raw(self, obj):
        b = json.dumps(obj).encode()
        try:
            self.p.stdin.write(b"Content-Length: %d\r\n\r\n" % len(b) + b)
            self.p.stdin.flush()
        except Exception as e:
            pass

    def uri(self, name):
        if "://" in name or name.startswith("untitled:"):
            return name
        return "file://" + os.path.join(self.root, name)

    def note(self, method, params):
        self.raw({"jsonrpc": "2.0", "method": method, "params": params})

    def req(self, method, params, timeout=5):
        self.id += 1
        i = self.id
        self.raw({"jsonrpc": "2.0", "id": i, "method": method, "params": params})
        return self.wait(i, timeout)

    def wait(self, i, timeout=5):
        end = time.time() + timeout
        while True:
            try:
                m = self.q.get(timeout=max(0.01, end - time.time()))
            except queue.Empty:
                return "TIMEOUT"
            if m is None:
                return "DEAD"
            if m.get("id") == i and "method" not in m:
                return m
            self.notes.append(m)
            if time.time() > end:
                return "TIMEOUT"

    def init(self):
        return self.req("initialize", {"processId": None, "rootUri": "file://" + self.root, "capabilities": {}}) and self.note("initialized", {})

    def open(self, name, text):
        self.note("textDocument/didOpen", {"textDocument": {"uri": self.uri(name), "languageId": "asm", "version": 1, "text": text}})

    def change(self, name, text, v=2):
        self.note("textDocument/didChange", {"textDocument": {"uri": self.uri(name), "version": v}, "contentChanges": [{"text": text}]})

    def close(self, name):
        self.note("textDocument/didClose", {"textDocument": {"uri": self.uri(name)}})

    def pos(self, method, name, line, ch, **extra):
        p = {"textDocument": {"uri": self.uri(name)}, "position": {"line": line, "character": ch}}
        p.update(extra)
        return self.req("textDocument/" + method, p)

    def doc(self, method, name, **extra):
        p = {"textDocument": {"uri": self.uri(name)}}
        p.update(extra)
        return self.req("textDocument/" + method, p)

    def sync(self):
        """barrier: workspace/symbol request; returns collected diagnostics (latest per uri)"""
        r = self.req("workspace/symbol", {"query": "\x00nomatch"})
        return r

    def diags(self):
        d = {}
        for m in self.notes:
            if m.get("method") == "textDocument/publishDiagnostics":
                d[m["params"]["uri"]] = [(x["range"]["start"]["line"], x["range"]["start"]["character"], x["range"]["end"]["line"], x["range"]["end"]["character"], x["message"]) for x in m["params"]["diagnostics"]]
        return d

    def alive(self):
        time.sleep(0.2)
        return self.p.poll() is None

    def stop(self):
        try:
            self.p.kill()
        except Exception:
            pass
        self.p.wait()


def apply_edits(text, edits):
    """apply LSP TextEdits (UTF-16 positions) to text"""
    lines = text.split("\n")

    def off(pos):
        l, c = pos["line"], pos["character"]
        if l >= len(lines):
            return len(text)
        o = sum(len(x) + 1 for x in lines[:l])
        s = lines[l]
        # c utf-16 units
        u = 0
        k = 0
        while k < len(s) and u < c:
            u += 2 if ord(s[k]) > 0xFFFF else 1
            k += 1
        return o + k
    es = sorted(edits, key=lambda e: (e["range"]["start"]["line"], e["range"]["start"]["character"]), reverse=True)
    for e in es:
        a, b = off(e["range"]["start"]), off(e["range"]["end"])
        text = text[:a] + e["newText"] + text[b:]
    return text


def tmp():
    return tempfile.mkdtemp(prefix="moshunt")
