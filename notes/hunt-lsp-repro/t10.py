from t9 import *
print("a"); semcheck('.const a = (1 +\n  2)\nlda #a\n')
print("b"); semcheck('.const a = 1 /* é\n é */ + 2\nlda #a\n')
print("c"); semcheck('.const a = 1 + /* é\n é */ 2 lda #a\n')
print("d"); semcheck('m(1,\n 2)\n.macro m(a,b) { lda #a+b }\n')
