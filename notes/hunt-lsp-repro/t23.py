from lspc import *
import subprocess, re
MOS="/tmp/hunt/lsp/target/debug/mos"
src='.define bank {\n name = "b1"\n}\n.define segment {\n name = "s1"\n start = $1000\n}\n.define segment {\n name = "s2"\n start = $2000\n}\n.segment "s1" { nop }\n'
s=Lsp(MOS,tmp(),{"main.asm":src}); s.init(); s.open("main.asm",src); s.sync(); print(s.diags()); 
print(s.doc("formatting","main.asm",options={"tabSize":4,"insertSpaces":True}))
print(s.pos("definition","main.asm",0,0)); s.stop()
p=subprocess.run([MOS,"build"],cwd=s.root,capture_output=True,text=True); print(p.returncode, re.sub(r"\x1b\[[0-9;]*m","",p.stdout)[:300])
