from lspc import *
import json
MOS="/tmp/hunt/lsp/target/debug/mos"
def q(src,items,extra=None):
    files={"main.asm":src}; files.update(extra or {})
    s=Lsp(MOS,tmp(),files); s.init(); s.open("main.asm",src); s.sync(); 
    if any(s.diags().values()): print("  diags",s.diags())
    for (m,l,c,kw) in items:
        r=s.pos(m,"main.asm",l,c,**kw); print("  %s %d:%d ->"%(m,l,c), json.dumps(r.get("result") if isinstance(r,dict) and "result" in r else r)[:400])
    if not s.alive(): print("  DIED","".join(s.err)[-300:])
    s.stop()
print("loop index"); q('.loop 2 { lda #index }\n',[("prepareRename",0,16,{}),("rename",0,16,{"newName":"i"})])
print("minus label"); q('{ dex\n bne -\n}\n',[("prepareRename",1,5,{}),("definition",1,5,{}),("rename",1,5,{"newName":"i"}),("references",1,5,{"context":{"includeDeclaration":True}})])
print("segments"); q('.define segment {\n name = "code"\n start = $1000\n}\nlda segments.code.start\n',[("prepareRename",4,5,{}),("prepareRename",4,14,{}),("rename",4,14,{"newName":"c2"}),("definition",4,14,{})])
print("import filename"); q('.import * from "b.asm"\n',[("prepareRename",0,17,{}),("rename",0,17,{"newName":"c.asm"}),("definition",0,17,{}),("hover",0,17,{}),("references",0,17,{"context":{"includeDeclaration":True}}),("documentHighlight",0,17,{})],{"b.asm":"nop\n"})
print("hover"); q('/// doc for foo\nfoo: nop // trailing\n/// doc for bar\n\nbar: nop\n    /// indented doc\n    baz: nop\nlda foo\nlda bar\nlda baz\n',[("hover",7,5,{}),("hover",8,5,{}),("hover",9,5,{}),("hover",1,1,{})])
