from lspc import *
MOS="/tmp/hunt/lsp/target/debug/mos"
def fresh(files=None, **kw):
    s=Lsp(MOS,tmp(),files or {"main.asm":"foo: nop\nlda foo\n"},**kw); return s
def report(name,s,r):
    print("==",name,"->",str(r)[:300],"| alive:",s.alive(),"| err:", "".join(s.err)[-300:].replace("\n"," / "))
    s.stop()

# 1 unknown request
s=fresh(); s.init(); r=s.req("textDocument/foldingRange",{"textDocument":{"uri":s.uri("main.asm")}},timeout=2); report("unknown method",s,r)
# 2 malformed params
s=fresh(); s.init(); r=s.req("textDocument/hover",{"textDocument":{"uri":s.uri("main.asm")}},timeout=2); report("hover w/o position",s,r)
# 3 negative position
s=fresh(); s.init(); r=s.pos("hover","main.asm",-1,0); report("negative line",s,r)
# 4 huge position
s=fresh(); s.init(); s.open("main.asm","foo: nop\nlda foo\n"); r=s.pos("hover","main.asm",4294967295,4294967295); report("huge pos hover",s,r)
# 5 request before initialize
s=fresh(); r=s.pos("hover","main.asm",0,0); report("before init",s,r)
# 6 bad uri
s=fresh(); s.init(); r=s.pos("definition","http://example.com/x.asm",0,0); report("http uri def",s,r)
s=fresh(); s.init(); s.open("untitled:Untitled-1","foo: nop"); r=s.doc("formatting","untitled:Untitled-1",options={"tabSize":4,"insertSpaces":True}); report("untitled fmt",s,r)
# 7 cancelRequest
s=fresh(); s.init(); s.note("$/cancelRequest",{"id":1}); r=s.pos("hover","main.asm",0,0); report("cancel",s,r)
# 8 initialize with odd params
s=fresh(); r=s.req("initialize",{"processId":"abc","capabilities":{}},timeout=2); r2=s.pos("hover","main.asm",0,0); report("init odd",s,(r,r2))
s=fresh(); r=s.req("initialize",None,timeout=2); r2=s.pos("hover","main.asm",0,0); report("init null",s,(r,r2))
# 9 didOpen with missing text
s=fresh(); s.init(); s.note("textDocument/didOpen",{"textDocument":{"uri":s.uri("main.asm")}}); r=s.pos("hover","main.asm",0,0); report("didOpen bad",s,r)
# 10 didChange with range-based change
s=fresh(); s.init(); s.open("main.asm","foo: nop\n"); s.note("textDocument/didChange",{"textDocument":{"uri":s.uri("main.asm"),"version":2},"contentChanges":[{"range":{"start":{"line":0,"character":0},"end":{"line":0,"character":3}},"text":"bar"}]}); r=s.doc("documentSymbol","main.asm"); report("incremental change",s,r)
