from lspc import *
import json, random
MOS="/tmp/hunt/lsp/target/debug/mos"
pool={"main.asm":['.import * from "b.asm"\nlda foo\n','lda foo\n','.import foo as q from "b.asm"\nlda q\n','.import * from "c.asm"\nlda (\n','nop\n'],
      "b.asm":['foo: nop\n','bar: nop\n','foo: lda zz\n','foo: nop\n.import * from "c.asm"\n'],
      "c.asm":['zz: nop\n','lda nothere\n','zz: nop\nyy: nop\n'],
      "mos.toml":['[build]\nentry = "main.asm"\n','[build]\nentry = "b.asm"\n','[bui']}
disk={"main.asm":pool["main.asm"][0],"b.asm":pool["b.asm"][0],"c.asm":pool["c.asm"][0]}
def snapshot(s,root):
    s.sync()
    d={k.replace(root,""):sorted(v) for k,v in s.diags().items() if v}
    out={"diags":d}
    for f in ["main.asm","b.asm","c.asm"]:
        r=s.doc("documentSymbol",f); out["ds_"+f]=json.dumps(r.get("result") if isinstance(r,dict) else r).replace(root,"")
        r=s.doc("semanticTokens/full",f); out["st_"+f]=json.dumps(r.get("result") if isinstance(r,dict) else r)
    return out
random.seed(int(sys.argv[1]) if len(sys.argv)>1 else 1)
bad=0
for it in range(25):
    root=tmp(); s=Lsp(MOS,root,disk); s.init()
    bufs={}; log=[]
    for step in range(random.randint(2,7)):
        f=random.choice(list(pool)); 
        if f in bufs and random.random()<0.35:
            s.close(f); del bufs[f]; log.append(("close",f))
        else:
            t=random.choice(pool[f])
            if f in bufs: s.change(f,t)
            else: s.open(f,t)
            bufs[f]=t; log.append(("set",f,t))
    a=snapshot(s,root); alive=s.alive(); s.stop()
    root2=tmp(); s2=Lsp(MOS,root2,disk); s2.init()
    for f,t in bufs.items(): s2.open(f,t)
    if not bufs: s2.open("zzz.asm","nop"); 
    b=snapshot(s2,root2); s2.stop()
    if a!=b or not alive:
        bad+=1; print("DIFF",log,"alive",alive); 
        for k in a:
            if a[k]!=b[k]: print("   ",k,"\n      hist :",a[k],"\n      fresh:",b[k])
print("done; diffs:",bad)
