from lspc import *
import json
MOS="/tmp/hunt/lsp/target/debug/mos"
def comp(src,l,c):
    s=Lsp(MOS,tmp(),{"main.asm":src}); s.init(); s.open("main.asm",src); r=s.pos("completion","main.asm",l,c); s.stop()
    return sorted(x["label"] for x in r["result"])
print(comp('outer: {\n  dex\n  bne outer\n  jmp \n}\n',3,6))
print(comp('.loop 2 {\n lda #index\n lda #\n}\n',2,6))
print(comp('.macro m(arg) {\n lda #arg\n}\n',1,6))   # never-invoked macro
print(comp('x: nop\ns: { x: nop\n lda \n}\n',2,5))
print(comp('lda fo\nfoo: nop\n.const foo2 = 1\n',0,6))
print(comp('vic: { .const border = 1 }\nlda #vic.\n',1,9))
print(comp('vic: { .const border = 1 }\nlda #vic.\n',1,8))
