from ren import *
def T(title,files,f,needle,nth,off,new):
    print("==",title); return check(files,f,needle,nth,off,new)
T("var reassigned",{"main.asm":'.var v = 1\nlda #v\n.var v = 2\nlda #v\n{ .var v = 3\n lda #v }\nlda #v\n'},"main.asm","v",1,0,"w")
T("hi/lo modifiers",{"main.asm":'foo: nop\nlda #<foo\nldx #>foo\nlda foo,x\nlda (foo),y\njmp (foo)\n.word foo, foo+1\n'},"main.asm","foo",0,0,"f")
T("param in nested block",{"main.asm":'.macro m(a) {\n { lda #a\n { ldx #a } }\n l: { lda #super.a }\n}\nm(1)\n'},"main.asm","m(a)",0,2,"p")
T("dotted macro invocation",{"main.asm":'lib: { .macro m(a) { lda #a } }\nlib.m(1)\n{ lib.m(2) }\n'},"main.asm","lib",0,0,"l")
T("dotted macro invocation rename macro",{"main.asm":'lib: { .macro m(a) { lda #a } }\nlib.m(1)\n{ lib.m(2) }\n'},"main.asm","m(a)",0,0,"mm")
T("symbol in if",{"main.asm":'.const D = 1\n.if D { foo: nop } else { foo: rts }\njmp foo\n'},"main.asm","jmp foo",0,4,"g")
T("segment label",{"main.asm":'.define segment {\n name = "a"\n start = $1000\n}\n.define segment {\n name = "b"\n start = $2000\n}\n.segment "a" { la: nop }\n.segment "b" { jmp la }\n'},"main.asm","la",0,0,"lx")
