from t4 import *
n=300
check("".join("l%d: lda l%d\n"%(i,(i+1)%n) for i in range(n)))
check("".join("lab%d: lda lab%d // c%d\n\n\n"%(i,(i*7)%n,i) for i in range(n)))
