from lspc import *
import time
MOS="/tmp/hunt/lsp/target/debug/mos"
s=Lsp(MOS,tmp(),{"main.asm":"nop\n"}); s.init(); print(s.req("shutdown",None)); s.note("exit",None); time.sleep(1.5); print("exit code after shutdown+exit:",s.p.poll()); s.stop()
s=Lsp(MOS,tmp(),{"main.asm":"nop\n"}); s.init(); s.note("exit",None); time.sleep(1.5); print("exit w/o shutdown:",s.p.poll(), "".join(s.err)[-200:]); s.stop()
s=Lsp(MOS,tmp(),{"main.asm":"nop\n"}); s.init(); s.p.stdin.close(); time.sleep(1.5); print("stdin closed:",s.p.poll(), "".join(s.err)[-200:]); s.stop()
# garbage on the wire
s=Lsp(MOS,tmp(),{"main.asm":"nop\n"}); s.init(); s.p.stdin.write(b"Content-Length: 5\r\n\r\nhello"); s.p.stdin.flush(); r=s.pos("hover","main.asm",0,0); print("garbage:",r,s.alive(),"".join(s.err)[-300:]); s.stop()
# batch / id string / id null
s=Lsp(MOS,tmp(),{"main.asm":"nop\n"}); s.init(); s.raw({"jsonrpc":"2.0","id":"abc","method":"textDocument/hover","params":{"textDocument":{"uri":s.uri("main.asm")},"position":{"line":0,"character":0}}}); print("string id:",s.wait("abc",2)); s.stop()
s=Lsp(MOS,tmp(),{"main.asm":"nop\n"}); s.init(); s.raw({"jsonrpc":"2.0","id":7,"method":"textDocument/didOpen","params":{"textDocument":{"uri":s.uri("main.asm"),"languageId":"x","version":1,"text":"nop"}}}); print("notification sent as request:",s.wait(7,2), s.alive()); s.stop()
s=Lsp(MOS,tmp(),{"main.asm":"nop\n"}); s.init(); s.raw({"jsonrpc":"2.0","method":"textDocument/hover","params":{"textDocument":{"uri":s.uri("main.asm")},"position":{"line":0,"character":0}}}); r=s.pos("hover","main.asm",0,0); print("request sent as notification:",r, s.alive()); s.stop()
