from nav import *
print("A implicit+explicit super")
src="a: {foo: nop}\nb: {foo: nop}\no: { i: { lda a.super.b.foo } }\n"
nav({"main.asm":src},[("main.asm","a.super.b.foo",0,0),("main.asm","a.super.b.foo",0,3),("main.asm","a.super.b.foo",0,8),("main.asm","a.super.b.foo",0,10)])
print("B forward shadow")
src="x: nop\n{ lda x\n x: nop }\n"
nav({"main.asm":src},[("main.asm","lda x",0,4)])
print("C macro body resolves per invocation")
src=".macro m() { lda x }\nA: { x: nop\n m() }\nB: { x: nop\n m() }\n"
nav({"main.asm":src},[("main.asm","lda x",0,4),("main.asm","x: nop",0,0),("main.asm","x: nop",1,0)])
print("D macro arg named like param")
src=".const a = 1\n.macro m(a) { lda #a }\nm(a+1)\n"
nav({"main.asm":src},[("main.asm","m(a+1)",0,2)])
print("E second arg refers to first param")
src=".macro m(x, y) { lda #x\n lda #y }\nm(1, x)\n"
nav({"main.asm":src},[("main.asm","m(1, x)",0,5)])
print("F label and macro same name")
src="foo: nop\n{ .macro foo() { nop } \n foo()\n lda foo }\nlda foo\n"
nav({"main.asm":src},[("main.asm","foo()",1,0),("main.asm","lda foo",0,4),("main.asm","lda foo",1,4)])
