from ren import *
print("A same file imported twice via * as")
files={"main.asm":'lda n1.foo\nlda n2.foo\n.import * as n1 from "b.asm" { .const A = 1 }\n.import * as n2 from "b.asm" { .const A = 2 }\n',"b.asm":"foo: lda #A\n"}
check(files,"b.asm","foo",0,0,"bar")
print("B dotted selective import")
files={"main.asm":'lda b\n.import a.b from "b.asm"\n',"b.asm":"a: { b: nop }\n"}
check(files,"b.asm","b:",0,0,"zz")
print("C rename to existing name / invalid name")
files={"main.asm":'foo: nop\nbar: nop\nlda foo\nlda bar\n'}
check(files,"main.asm","foo",0,0,"bar")
check(files,"main.asm","foo",0,0,"1x y")
check(files,"main.asm","foo",0,0,"")
check(files,"main.asm","foo",0,0,"lda")
