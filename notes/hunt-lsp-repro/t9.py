from lspc import *
import json
MOS="/tmp/hunt/lsp/target/debug/mos"
def u16len(s): return sum(2 if ord(c)>0xffff else 1 for c in s)
def semcheck(src, extra=None, name="main.asm"):
    files={"main.asm":src}; files.update(extra or {})
    s=Lsp(MOS,tmp(),files); s.init(); s.open(name,files[name])
    r=s.doc("semanticTokens/full",name); ds=s.doc("documentSymbol",name); ws=s.req("workspace/symbol",{"query":""})
    alive=s.alive(); s.stop()
    if not alive: print("  DIED","".join(s.err)[-300:]); return
    lines=files[name].split("\n")
    res=r.get("result") if isinstance(r,dict) else None
    probs=[]
    if res:
        d=res["data"]; line=0; col=0; prev_end=(0,0); toks=[]
        for i in range(0,len(d),5):
            dl,dc,ln,ty,mod=d[i:i+5]
            if dl: line+=dl; col=dc
            else: col+=dc
            toks.append((line,col,ln,ty))
            if ln==0: probs.append(("zero-length",line,col))
            if (line,col)<prev_end: probs.append(("overlap",line,col,ln,"prev_end",prev_end))
            if line>=len(lines) or col+ln>u16len(lines[line]): probs.append(("out of line",line,col,ln))
            prev_end=(line,col+ln)
        print("  toks:",[(l,c,n,lines[l][c:c+n] if l<len(lines) else None) for l,c,n,t in toks])
    else: print("  semtok:",r)
    def walk(sym,parent=None):
        rg=sym["range"]; a=(rg["start"]["line"],rg["start"]["character"]); b=(rg["end"]["line"],rg["end"]["character"])
        sr=sym["selectionRange"]
        if parent and not (parent[0]<=a and b<=parent[1]): probs.append(("child outside parent",sym["name"],a,b,parent))
        for c in sym.get("children") or []: walk(c,(a,b))
    dres=ds.get("result") if isinstance(ds,dict) else None
    for sym in dres or []: walk(sym)
    print("  docsym:",json.dumps(dres)[:300] if not dres else [x["name"] for x in dres])
    wres=ws.get("result") if isinstance(ws,dict) else ws
    print("  wssym:",[(x["name"],x.get("containerName"),x["location"]["uri"].rsplit("/",1)[1]) for x in wres] if isinstance(wres,list) else wres)
    print("  PROBLEMS:",probs)
if __name__=="__main__":
    print("1"); semcheck('a: {\n  b: nop\n}\n')
    print("2"); semcheck('.const s = "{a} y" + 1\n.var q = 1 +\n   2\nlda "x{s}y"\n.text "héllo {s}"\n')
    print("3"); semcheck('.if 1 { nop } else { rts }\n.macro m(a,b) { lda #a+b }\nm(1,\n 2)\n* = $1000\n.align 4\n.byte 1,2,<s\n.const s=*\n')
    print("4"); semcheck('.define segment {\n name = "a"\n start = $1000\n}\n.segment "a" { x: nop }\n.test "t" { .assert 1 == 1 "msg"\n .trace (a, 1) }\n.file "x.bin"\n',{"x.bin":"ab"})
    print("5 recursive import"); semcheck('.import * from "b.asm"\nnop\n',{"b.asm":'.import * from "main.asm"\nx: nop\n'})
    print("6 import twice"); semcheck('.import * as p from "b.asm"\n.import * as q from "b.asm"\nnop\n',{"b.asm":'x: nop\n'})
    print("7 multi-line string"); semcheck('.text "ab\ncd"\nlda #1\n.const é = "日本\n語" lda é\n')
