from lspc import *
import json
MOS="/tmp/hunt/lsp/target/debug/mos"
def sd(s): 
    s.sync(); return {k.rsplit("/",1)[1]:v for k,v in s.diags().items()}
print("A import via sub/../b.asm, buffer for b.asm differs from disk")
files={"main.asm":'.import * from "sub/../b.asm"\nlda foo\n',"b.asm":"foo: nop\n","sub/x.asm":"nop\n"}
s=Lsp(MOS,tmp(),files); s.init(); s.open("main.asm",files["main.asm"]); s.open("b.asm","bar: nop\n"); print(sd(s)); 
print(s.pos("definition","main.asm",1,5)); print(json.dumps(s.doc("documentSymbol","b.asm")));s.stop()
print("A2 import of ./b.asm")
files={"main.asm":'.import * from "./b.asm"\nlda foo\n',"b.asm":"foo: nop\n"}
s=Lsp(MOS,tmp(),files); s.init(); s.open("main.asm",files["main.asm"]); s.open("b.asm","bar: nop\n"); print(sd(s)); s.stop()
print("B import nonexistent")
files={"main.asm":'.import * from "nope.asm"\nlda foo\n'}
s=Lsp(MOS,tmp(),files); s.init(); s.open("main.asm",files["main.asm"]); print(sd(s), [m for m in s.notes]); s.stop()
print("C error in imported file, then stop importing")
files={"main.asm":'.import * from "b.asm"\nnop\n',"b.asm":"lda unknown\n"}
s=Lsp(MOS,tmp(),files); s.init(); s.open("main.asm",files["main.asm"]); print(sd(s)); s.change("main.asm","nop\n"); print(sd(s)); s.stop()
print("D symlinked root")
root=tmp(); real=os.path.join(root,"real"); os.makedirs(real); link=os.path.join(root,"link"); os.symlink(real,link)
s=Lsp(MOS,link,{"main.asm":"nop\n"}); s.init(); s.open("main.asm","lda unknown\n"); s.sync(); print(s.diags()); s.stop()
print("E entry deleted/ error then fixed")
files={"main.asm":'lda unknown\n'}
s=Lsp(MOS,tmp(),files); s.init(); s.open("main.asm",files["main.asm"]); print(sd(s)); s.change("main.asm","lda (\n"); print(sd(s)); s.change("main.asm","nop\n"); print(sd(s)); s.stop()
print("F open non-project file with errors")
files={"main.asm":'nop\n',"other.asm":"lda unknown\n"}
s=Lsp(MOS,tmp(),files); s.init(); s.open("other.asm",files["other.asm"]); print(sd(s)); print(s.pos("definition","other.asm",0,5)); print(s.doc("semanticTokens/full","other.asm"));print(s.doc("formatting","other.asm",options={"tabSize":4,"insertSpaces":True})); s.stop()
