from ren import *
def T(title,files,f,needle,nth,off,new):
    print("==",title); return check(files,f,needle,nth,off,new)
T("interp",{"main.asm":'.const foo = "x"\n.text "{foo}y"\n.text foo\n'},"main.asm","foo",0,0,"quux")
T("super path",{"main.asm":'x: nop\no: {\n x: nop\n i: { lda super.x\n lda super.super.x\n lda o.x }\n}\n'},"main.asm","x",1,0,"yy")
T("middle of path",{"main.asm":'foo: { bar: { baz: nop } }\nlda foo.bar.baz\n{ lda foo.bar.baz }\n'},"main.asm","bar",0,0,"b")
T("macro label",{"main.asm":'.macro m() {\n l: jmp l\n}\nm()\nm()\n'},"main.asm","l:",0,0,"lbl")
T("macro param",{"main.asm":'.const a = 1\n.macro m(a) {\n lda #a\n}\nm(a)\nm(2)\n'},"main.asm","#a",0,1,"p")
T("macro param from global",{"main.asm":'.const a = 1\n.macro m(a) {\n lda #a\n}\nm(a)\nm(2)\n'},"main.asm","a",0,0,"g")
T("macro name other file",{"main.asm":'.import * from "b.asm"\nm(1)\n{ m(2) }\n',"b.asm":".macro m(a) { lda #a }\n"},"main.asm","m(1)",0,0,"mac")
T("loop label",{"main.asm":'.loop 2 {\n l: jmp l\n}\n'},"main.asm","l:",0,0,"lbl")
T("import block const",{"main.asm":'.import * from "b.asm" { .const ADDR = $d020 }\n',"b.asm":".if defined(ADDR) { sta ADDR }\n"},"main.asm","ADDR",0,0,"A2")
T("import * as ns",{"main.asm":'.import * as ns from "b.asm"\nlda ns.foo\n{ ns: nop\n lda super.ns.foo }\n',"b.asm":"foo: nop\n"},"b.asm","foo",0,0,"f2")
T("selective no alias",{"main.asm":'.import foo from "b.asm"\nlda foo\n',"b.asm":"foo: nop\nbar: lda foo\n"},"main.asm","lda foo",0,4,"f2")
