from lspc import *
MOS="/tmp/hunt/lsp/target/debug/mos"
def fresh(files=None, **kw):
    s=Lsp(MOS,tmp(),files or {"main.asm":"foo: nop\nlda foo\n"},**kw); return s
def report(name,s,r):
    print("==",name,"->",str(r)[:400],"| alive:",s.alive(),"| err:", "".join(s.err)[-400:].replace("\n"," / "))
    s.stop()
s=fresh(); r=s.req("initialize",{"processId":"abc","capabilities":{}},timeout=2); s.note("initialized",{}); r2=s.pos("hover","main.asm",0,0); report("init odd",s,(str(r)[:40],r2))
s=fresh(); r=s.req("initialize",{"capabilities":{}},timeout=2); s.note("initialized",{}); r2=s.pos("hover","main.asm",0,0); report("init minimal(no processId)",s,(str(r)[:40],r2))
s=fresh(); r=s.req("initialize",{"processId":None,"rootUri":None,"capabilities":{}},timeout=2); s.note("initialized",{}); r2=s.pos("hover","main.asm",0,0); report("init ok",s,(str(r)[:40],r2))
# shutdown then request
s=fresh(); s.init(); r=s.req("shutdown",None); r2=s.pos("hover","main.asm",0,0); report("after shutdown",s,(r,r2))
# no mos.toml
s=fresh(toml=None); s.init(); s.open("main.asm","foo: nop\nlda foo\n"); r=s.pos("definition","main.asm",1,5); report("no toml",s,r)
# broken toml
s=fresh(toml="[build\n"); s.init(); s.open("main.asm","foo: nop\nlda foo\n"); r=s.pos("definition","main.asm",1,5); report("broken toml",s,r)
# entry absent
s=fresh(toml='[build]\nentry = "nope.asm"\n'); s.init(); s.open("main.asm","foo: nop\nlda foo\n"); r=s.pos("definition","main.asm",1,5); report("entry absent",s,r)
# entry is a directory
s=fresh(toml='[build]\nentry = "."\n'); s.init(); s.open("main.asm","foo: nop\nlda foo\n"); r=s.pos("definition","main.asm",1,5); report("entry dir",s,r)
# uri with percent-encoding / spaces
s=fresh({"main.asm":".import * from \"a b.asm\"\nlda foo\n","a b.asm":"foo: nop\n"}); s.init(); s.open("main.asm",".import * from \"a b.asm\"\nlda foo\n"); r=s.pos("definition","main.asm",1,5); report("space file",s,r)
# relative path name in uri file://relative ?
s=fresh(); s.init(); r=s.pos("definition","file://host/share/x.asm",0,0); report("uri w/ host",s,r)
s=fresh(); s.init(); s.open("file:///tmp/../tmp/x/./main.asm","foo: nop"); r=s.pos("definition","file:///tmp/../tmp/x/./main.asm",0,0); report("dotdot",s,r)
