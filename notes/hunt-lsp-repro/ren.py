from lspc import *
import json, subprocess, re
MOS="/tmp/hunt/lsp/target/debug/mos"
def build(files):
    root=tmp()
    for k,v in files.items():
        p=os.path.join(root,k); os.makedirs(os.path.dirname(p),exist_ok=True); open(p,"w",newline="").write(v)
    open(os.path.join(root,"mos.toml"),"w").write('[build]\nentry = "main.asm"\n')
    p=subprocess.run([MOS,"build"],cwd=root,capture_output=True,text=True)
    out=None
    t=os.path.join(root,"target")
    if os.path.isdir(t):
        for fn in os.listdir(t):
            if fn.endswith(".prg"): out=open(os.path.join(t,fn),"rb").read().hex()
    return p.returncode,out,re.sub(r"\x1b\[[0-9;]*m","",p.stdout)[:160].replace("\n"," / ")
def locate(text,needle,nth,off):
    idx=-1
    for _ in range(nth+1): idx=text.index(needle,idx+1)
    idx+=off
    return text.count("\n",0,idx), idx-(text.rfind("\n",0,idx)+1)
def rename(files,f,needle,nth,off,new,open_=None,quiet=False):
    root=tmp()
    s=Lsp(MOS,root,files); s.init()
    for n in (open_ or list(files)): s.open(n,files[n])
    line,col=locate(files[f],needle,nth,off)
    pr=s.pos("prepareRename",f,line,col)
    r=s.pos("rename",f,line,col,newName=new)
    ok=s.alive(); s.stop()
    if not ok: print("  SERVER DIED","".join(s.err)[-600:]); return None
    res=r.get("result") if isinstance(r,dict) else r
    if not quiet: print("  prepare:",json.dumps(pr.get("result") if isinstance(pr,dict) else pr)); print("  rename:",json.dumps(res)[:700])
    if not isinstance(res,dict): return None
    new_files=dict(files)
    for uri,edits in (res.get("changes") or {}).items():
        name=os.path.relpath(uri[len("file://"):].replace("%20"," "),root)
        new_files[name]=apply_edits(files[name],edits)
    return new_files
def check(files,f,needle,nth,off,new,back=None):
    b0=build(files)
    nf=rename(files,f,needle,nth,off,new)
    if nf is None: print("  no rename; build0",b0); return
    b1=build(nf)
    print("  before:",b0,"\n  after :",b1, "OK" if b0[:2]==b1[:2] else "**MISMATCH**")
    for k in nf:
        if nf[k]!=files[k]: print("   %s: %r"%(k,nf[k]))
    return nf
