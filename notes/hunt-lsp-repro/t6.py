from nav import *
print("A shadowing nested scopes")
src="x: nop\nouter: {\n  x: nop\n  inner: {\n    lda x\n    lda super.x\n    lda super.super.x\n  }\n}\n"
nav({"main.asm":src},[("main.asm","lda x",0,4),("main.asm","super.x",0,6),("main.asm","super.super.x",0,12),("main.asm","super.x",0,1)])
print("B var assigned several times")
src=".var v = 1\nlda #v\nv = 2\nlda #v\n{ .var v = 7\n lda #v }\n"
nav({"main.asm":src},[("main.asm","#v",0,1),("main.asm","#v",1,1),("main.asm","#v",2,1),("main.asm","v = 2",0,0)])
print("C macro params + loop index")
src=".macro m(a) {\n lda #a\n}\n.const a = 5\nm(a)\n.loop 2 { lda #index }\n.const index = 9\nlda #index\n"
nav({"main.asm":src},[("main.asm","#a",0,1),("main.asm","m(a)",0,2),("main.asm","m(a)",0,0),("main.asm","#index",0,1),("main.asm","#index",1,1)])
print("D interpolated, defined, segments")
src='.const foo = "x"\n.const s = "{foo} y"\n.if defined(foo) { nop }\n.define segment { name = "code"\n start = $2000 }\n.define segment { name = "data"\n start = segments.code.end }\n.segment "data" { nop }\n'
nav({"main.asm":src},[("main.asm","{foo}",0,1),("main.asm","defined(foo)",0,8),("main.asm","segments.code.end",0,0),("main.asm","segments.code.end",0,9),("main.asm","segments.code.end",0,14)])
