from lspc import *
import json, subprocess, re
MOS="/tmp/hunt/lsp/target/debug/mos"
def rg(r): return "%d:%d-%d:%d"%(r["start"]["line"],r["start"]["character"],r["end"]["line"],r["end"]["character"])
def short(u): return u.rsplit("/",1)[1]
def nav(files, queries, open_=None, build=True):
    """queries: list of (file, needle, nth occurrence idx, offset within needle)"""
    root=tmp()
    s=Lsp(MOS,root,files); s.init()
    for n in (open_ or ["main.asm"]): s.open(n,files[n])
    s.sync(); d=s.diags()
    dd={short(k):v for k,v in d.items() if v}
    if dd: print("  diags:",dd)
    for (f,needle,nth,off) in queries:
        text=files[f]; idx=-1
        for _ in range(nth+1): idx=text.index(needle,idx+1)
        idx+=off
        line=text.count("\n",0,idx); col=idx-(text.rfind("\n",0,idx)+1)
        r=s.pos("definition",f,line,col)
        res=r.get("result") if isinstance(r,dict) else r
        if isinstance(res,list):
            ds=["%s@%s"%(short(x["targetUri"]),rg(x["targetRange"])) for x in res]
        else: ds=res
        r2=s.pos("references",f,line,col,context={"includeDeclaration":True})
        res2=r2.get("result") if isinstance(r2,dict) else r2
        rs=sorted("%s@%s"%(short(x["uri"]),rg(x["range"])) for x in res2) if isinstance(res2,list) else res2
        r3=s.pos("documentHighlight",f,line,col)
        res3=r3.get("result") if isinstance(r3,dict) else r3
        hs=sorted(rg(x["range"]) for x in res3) if isinstance(res3,list) else res3
        print("  Q %s %d:%d (%r#%d+%d): def=%s\n      refs=%s\n      hl=%s"%(f,line,col,needle,nth,off,ds,rs,hs))
    ok=s.alive(); s.stop()
    if not ok: print("  SERVER DIED", "".join(s.err)[-500:])
    if build:
        p=subprocess.run([MOS,"build"],cwd=root,capture_output=True,text=True)
        out=None
        for fn in os.listdir(os.path.join(root,"target")) if os.path.isdir(os.path.join(root,"target")) else []:
            if fn.endswith(".prg"): out=open(os.path.join(root,"target",fn),"rb").read().hex()
        print("  build rc",p.returncode,"prg",out, re.sub(r"\x1b\[[0-9;]*m","",p.stdout)[:200].replace("\n"," / "))
    return root
