from lspc import *
MOS="/tmp/hunt/lsp/target/debug/mos"
def fresh(files=None, **kw):
    s=Lsp(MOS,tmp(),files or {"main.asm":"foo: nop\nlda foo\n"},**kw); return s
def report(name,s,r):
    print("==",name,"->",str(r)[:300],"| alive:",s.alive(),"| err:", "".join(s.err)[:400].replace("\n"," / "))
    s.stop()
for m in ["hover","definition","references","documentHighlight","prepareRename","completion","rename"]:
    s=fresh(); s.init(); s.open("main.asm","foo: nop\nlda foo\n"); extra={}
    if m=="references": extra={"context":{"includeDeclaration":True}}
    if m=="rename": extra={"newName":"x"}
    r=s.pos(m,"file:///tmp/%FF.asm",0,0,**extra); report(m+" non-utf8 uri",s,r)
s=fresh(); s.init(); s.open("file:///tmp/%FF.asm","nop\n"); r=s.doc("documentSymbol","file:///tmp/%FF.asm"); report("didOpen non-utf8",s,r)
for m in ["semanticTokens/full","documentSymbol","codeLens","formatting"]:
    s=fresh(); s.init(); s.open("main.asm","foo: nop\nlda foo\n"); r=s.doc(m,"file:///tmp/%FF.asm",options={"tabSize":4,"insertSpaces":True}); report(m+" non-utf8 uri",s,r)
