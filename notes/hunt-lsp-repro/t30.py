from lspc import *
MOS="/tmp/hunt/lsp/target/debug/mos"
import re
def pan(s): 
    m=re.search(r"panicked at ([^\n]*)\n([^\n]*)","".join(s.err)); return m.groups() if m else None
s=Lsp(MOS,tmp(),{"main.asm":"nop\n"}); s.init(); s.req("textDocument/hover",{"textDocument":{"uri":s.uri("main.asm")}},timeout=2); s.alive(); print(pan(s), s.p.poll()); s.stop()
s=Lsp(MOS,tmp(),{"main.asm":"nop\n"}); s.req("initialize",{"processId":"abc","capabilities":{}}); s.note("initialized",{}); s.pos("hover","main.asm",0,0,); s.alive(); print(pan(s), s.p.poll()); s.stop()
s=Lsp(MOS,tmp(),{"main.asm":"nop\n"}); s.init(); s.note("textDocument/didChange",{"textDocument":{"uri":s.uri("main.asm")}}); s.pos("hover","main.asm",0,0,); s.alive(); print(pan(s), s.p.poll()); s.stop()
s=Lsp(MOS,tmp(),{"main.asm":"nop\n"}); s.init(); s.p.stdin.write(b"Content-Length: 5\r\n\r\nhello"); s.p.stdin.flush(); r=s.pos("hover","main.asm",0,0); s.alive(); print("garbage",r, pan(s), s.p.poll(), "".join(s.err)[-200:]); s.stop()
