#!/usr/bin/env python3
"""Replays every LSP finding against <checkout>/target/debug/mos.
usage: repro.py <checkout>
Prints one line per finding: `<id> REPRODUCED|not reproduced  <title>`."""
import json, os, queue, re, subprocess, sys, tempfile, threading, time

MOS = None


class Lsp:
    def __init__(self, files=None, toml='[build]\nentry = "main.asm"\n', root=None, cwd=None):
        self.root = root or tempfile.mkdtemp(prefix="mosrepro")
        os.makedirs(self.root, exist_ok=True)
        if toml is not None:
            open(os.path.join(self.root, "mos.toml"), "w").write(toml)
        for k, v in (files or {}).items():
            p = os.path.join(self.root, k)
            os.makedirs(os.path.dirname(p), exist_ok=True)
            open(p, "w", newline="").write(v)
        self.p = subprocess.Popen([MOS, "lsp"], cwd=cwd or self.root, stdin=subprocess.PIPE,
                                  stdout=subprocess.PIPE, stderr=subprocess.PIPE)
        self.q = queue.Queue()
        self.err = []
        threading.Thread(target=self._rd, daemon=True).start()
        threading.Thread(target=self._rderr, daemon=True).start()
        self.id = 0
        self.notes = []

    def _rderr(self):
        for l in self.p.stderr:
            self.err.append(l.decode(errors="replace"))

    def _rd(self):
        f = self.p.stdout
        while True:
            n = None
            while True:
                l = f.readline()
                if not l:
                    self.q.put(None)
                    return
                l = l.strip()
                if not l:
                    break
                if l.lower().startswith(b"content-length:"):
                    n = int(l.split(b":")[1])
            self.q.put(json.loads(f.read(n)))

    def raw(self, obj):
        b = json.dumps(obj).encode()
        try:
            self.p.stdin.write(b"Content-Length: %d\r\n\r\n" % len(b) + b)
            self.p.stdin.flush()
        except Exception:
            pass

    def uri(self, name):
        if "://" in name:
            return name
        return "file://" + os.path.join(self.root, name)

    def note(self, method, params):
        self.raw({"jsonrpc": "2.0", "method": method, "params": params})

    def req(self, method, params, timeout=10):
        self.id += 1
        self.raw({"jsonrpc": "2.0", "id": self.id, "method": method, "params": params})
        return self.wait(self.id, timeout)

    def wait(self, i, timeout=10):
        end = time.time() + timeout
        while True:
            try:
                m = self.q.get(timeout=max(0.01, end - time.time()))
            except queue.Empty:
                return "TIMEOUT"
            if m is None:
                return "DEAD"
            if m.get("id") == i and "method" not in m:
                return m
            self.notes.append(m)
            if time.time() > end:
                return "TIMEOUT"

    def init(self, params=None):
        r = self.req("initialize", params or {"processId": None, "rootUri": "file://" + self.root, "capabilities": {}})
        self.note("initialized", {})
        return r

    def open(self, name, text):
        self.note("textDocument/didOpen", {"textDocument": {"uri": self.uri(name), "languageId": "asm", "version": 1, "text": text}})

    def pos(self, method, name, line, ch, timeout=10, **extra):
        p = {"textDocument": {"uri": self.uri(name)}, "position": {"line": line, "character": ch}}
        p.update(extra)
        return self.req("textDocument/" + method, p, timeout)

    def doc(self, method, name, timeout=10, **extra):
        p = {"textDocument": {"uri": self.uri(name)}}
        p.update(extra)
        return self.req("textDocument/" + method, p, timeout)

    def sync(self):
        return self.doc("documentSymbol", "file:///nonexistent/sync.asm")

    def diags(self):
        d = {}
        for m in self.notes:
            if m.get("method") == "textDocument/publishDiagnostics":
                d[m["params"]["uri"]] = m["params"]["diagnostics"]
        return d

    def alive(self):
        time.sleep(0.3)
        return self.p.poll() is None

    def stop(self):
        try:
            self.p.kill()
        except Exception:
            pass
        self.p.wait()


def res(r):
    return r.get("result") if isinstance(r, dict) else r


def session(files, open_=None, **kw):
    s = Lsp(files, **kw)
    s.init()
    for n in (open_ or ["main.asm"]):
        s.open(n, files[n])
    return s


def u16(s):
    return sum(2 if ord(c) > 0xFFFF else 1 for c in s)


def apply_edits(text, edits):
    lines = text.split("\n")

    def off(pos):
        l, c = pos["line"], pos["character"]
        if l >= len(lines):
            return len(text)
        o = sum(len(x) + 1 for x in lines[:l])
        s = lines[l]
        u = k = 0
        while k < len(s) and u < c:
            u += 2 if ord(s[k]) > 0xFFFF else 1
            k += 1
        return o + k
    for e in sorted(edits, key=lambda e: (e["range"]["start"]["line"], e["range"]["start"]["character"]), reverse=True):
        a, b = off(e["range"]["start"]), off(e["range"]["end"])
        text = text[:a] + e["newText"] + text[b:]
    return text


def apply_ws(root, files, wsedit):
    nf = dict(files)
    for uri, edits in ((wsedit or {}).get("changes") or {}).items():
        name = os.path.relpath(uri[len("file://"):], root)
        nf[name] = apply_edits(files[name], edits)
    return nf


def run_cli(files, cmd="build"):
    root = tempfile.mkdtemp(prefix="mosrepro")
    for k, v in files.items():
        p = os.path.join(root, k)
        os.makedirs(os.path.dirname(p), exist_ok=True)
        open(p, "w", newline="").write(v)
    open(os.path.join(root, "mos.toml"), "w").write('[build]\nentry = "main.asm"\n')
    p = subprocess.run([MOS, cmd], cwd=root, capture_output=True, text=True)
    out = None
    t = os.path.join(root, "target")
    if os.path.isdir(t):
        for fn in os.listdir(t):
            if fn.endswith(".prg"):
                out = open(os.path.join(t, fn), "rb").read().hex()
    disk = {k: open(os.path.join(root, k), newline="").read() for k in files if not k.endswith(".bin")}
    return p.returncode, out, disk


def rename_breaks(files, f, line, ch, new, cmd="build"):
    """True when rename yields an edit after which the project no longer builds to the same bytes"""
    s = session(files, list(files))
    r = res(s.pos("rename", f, line, ch, newName=new))
    s.stop()
    if not isinstance(r, dict):
        return False
    before = run_cli(files, cmd)[:2]
    after = run_cli(apply_ws(s.root, files, r), cmd)[:2]
    return before[0] == 0 and before != after


# ---------------------------------------------------------------------------------------------------------------------

def f01():
    s = session({"main.asm": "nop\n"})
    r = s.req("textDocument/foldingRange", {"textDocument": {"uri": s.uri("main.asm")}}, timeout=3)
    ok = r == "TIMEOUT" and s.alive()
    s.stop()
    return ok


def f02():
    hits = 0
    s = session({"main.asm": "nop\n"})
    r = s.req("textDocument/hover", {"textDocument": {"uri": s.uri("main.asm")}}, timeout=3)
    hits += (r == "DEAD" or not s.alive())
    s.stop()
    s = session({"main.asm": "nop\n"})
    r = s.pos("hover", "main.asm", -1, 0, timeout=3)
    hits += (r == "DEAD" or not s.alive())
    s.stop()
    s = session({"main.asm": "nop\n"})
    s.note("textDocument/didOpen", {"textDocument": {"uri": s.uri("main.asm")}})
    r = s.pos("hover", "main.asm", 0, 0, timeout=3)
    hits += (r == "DEAD" or not s.alive())
    s.stop()
    return hits == 3


def f03():
    s = Lsp({"main.asm": "nop\n"})
    r = s.init({"processId": "abc", "capabilities": {}})
    r2 = s.pos("hover", "main.asm", 0, 0, timeout=3)
    ok = isinstance(r, dict) and "result" in r and (r2 == "DEAD" or not s.alive())
    s.stop()
    return ok


def f04():
    src = '/* \U0001F600 */ foo: nop\nlda foo\n'
    s = session({"main.asm": src})
    r = res(s.pos("definition", "main.asm", 1, 5))
    ren = res(s.pos("rename", "main.asm", 1, 5, newName="bar"))
    s.stop()
    want = u16('/* \U0001F600 */ ')  # 9
    got = r[0]["targetRange"]["start"]["character"]
    new = apply_ws(s.root, {"main.asm": src}, ren)["main.asm"]
    return got != want and new != '/* \U0001F600 */ bar: nop\nlda bar\n'


def f05():
    hits = 0
    for m in ("hover", "completion"):
        s = session({"main.asm": "foo: nop\nlda foo\n"})
        r = s.pos(m, "file:///tmp/%FF.asm", 0, 0, timeout=3)
        hits += (r == "DEAD" or not s.alive())
        s.stop()
    s = session({"main.asm": "foo: nop\nlda foo\n"})
    r = s.doc("codeLens", "file:///tmp/%FF.asm", timeout=3)
    hits += (r == "DEAD" or not s.alive())
    s.stop()
    return hits == 3


def f06():
    files = {"main.asm": '.import * from "b.asm"\nnop\n', "b.asm": '.import * from "main.asm"\nx: nop\n'}
    s = session(files)
    r0 = s.doc("documentSymbol", "main.asm")
    r = s.req("workspace/symbol", {"query": ""}, timeout=5)
    ok = isinstance(r0, dict) and (r == "DEAD" or not s.alive()) and "overflowed its stack" in "".join(s.err)
    s.stop()
    return ok


def f07():
    s = session({"main.asm": "a: {\n  b: nop\n}\n"})
    r = res(s.doc("documentSymbol", "main.asm"))
    s.stop()
    a = r[0]
    b = a["children"][0]
    pe = (a["range"]["end"]["line"], a["range"]["end"]["character"])
    cs = (b["range"]["start"]["line"], b["range"]["start"]["character"])
    return cs > pe


def f08():
    s = session({"main.asm": "a: {\n  b: nop\n}\n"})
    r = res(s.req("workspace/symbol", {"query": "b"}))
    r2 = res(s.req("workspace/symbol", {"query": ""}))
    s.stop()
    return r == [] and [x["name"] for x in r2] == ["a"]


def f09():
    src = '.const a = 1 /* é\n é */ + 2\nlda #a\n'
    s = session({"main.asm": src})
    d = res(s.doc("semanticTokens/full", "main.asm"))["data"]
    s.stop()
    lines = src.split("\n")
    line = col = 0
    for i in range(0, len(d), 5):
        if d[i]:
            line += d[i]
            col = d[i + 1]
        else:
            col += d[i + 1]
        if col + d[i + 2] > u16(lines[line]):
            return True
    return False


def f10():
    s = Lsp({"main.asm": ".const c = 1\n"})
    caps = res(s.init())["capabilities"]["semanticTokensProvider"]["legend"]
    s.open("main.asm", ".const c = 1\n")
    d = res(s.doc("semanticTokens/full", "main.asm"))["data"]
    s.stop()
    # second token is the value of the constant
    return caps["tokenModifiers"] == ["readonly"] and len(d) == 10 and d[9] == 0


def f11():
    files = {"main.asm": '.import * from "t.asm"\nnop\n',
             "t.asm": '// 1\n// 2\n// 3\n// 4\n        .test "imported" { .assert 1 == 1\n brk }\n'}
    s = session(files)
    r = res(s.doc("codeLens", "main.asm"))
    s.stop()
    nlines = len(files["main.asm"].split("\n"))
    return bool(r) and any(x["range"]["start"]["line"] >= nlines for x in r)


def f12():
    files = {"main.asm": ".const a = 7\n.macro m(a) { lda #a }\nm(a)\n"}
    rc, prg, _ = run_cli(files)
    s = session(files)
    r = res(s.pos("definition", "main.asm", 2, 2))
    s.stop()
    goes_to_param = r and r[0]["targetRange"]["start"] == {"line": 1, "character": 9}
    return rc == 0 and prg.endswith("a907") and goes_to_param and rename_breaks(files, "main.asm", 0, 7, "g")


def f13():
    files = {"main.asm": ".macro m() { lda x }\nA: { x: nop\n m() }\nB: { x: nop\n m() }\n"}
    s = session(files)
    r = res(s.pos("references", "main.asm", 0, 17, context={"includeDeclaration": True}))
    h = res(s.pos("documentHighlight", "main.asm", 0, 17))
    s.stop()
    k = [json.dumps(x, sort_keys=True) for x in r]
    kh = [json.dumps(x, sort_keys=True) for x in h]
    return len(k) != len(set(k)) and len(kh) != len(set(kh))


def f14():
    files = {"main.asm": 'lda n1.foo\nlda n2.foo\n.import * as n1 from "b.asm" { .const A = 1 }\n.import * as n2 from "b.asm" { .const A = 2 }\n',
             "b.asm": "foo: lda #A\n"}
    return rename_breaks(files, "b.asm", 0, 0, "bar")


def f15():
    files = {"main.asm": "foo: nop\nbar: nop\nlda foo\nlda bar\n"}
    n = 0
    for new in ("bar", "1x y", ""):
        s = session(files)
        r = s.pos("rename", "main.asm", 0, 0, newName=new)
        s.stop()
        n += isinstance(r, dict) and "error" not in r and isinstance(res(r), dict) and run_cli(apply_ws(s.root, files, res(r)))[0] != 0
    shadow = {"main.asm": "x: nop\n{ y: nop\n lda x\n lda y }\n"}
    return n == 3 and rename_breaks(shadow, "main.asm", 0, 0, "y")


def f16():
    files = {"main.asm": "{ dex\n bne -\n}\n"}
    s = session(files)
    p = res(s.pos("prepareRename", "main.asm", 1, 5))
    r = res(s.pos("rename", "main.asm", 1, 5, newName="i"))
    s.stop()
    new = apply_ws(s.root, files, r)["main.asm"] if isinstance(r, dict) else None
    return p is not None and p["start"] == p["end"] and new == "i dex\n bne i\n}\n"


def f17():
    files = {"main.asm": 'v: .byte 1\n.test "t" { lda v\n .assert cpu.a == 1\n brk }\n'}
    s = session(files)
    d = res(s.pos("definition", "main.asm", 1, 16))
    refs = res(s.pos("references", "main.asm", 0, 0, context={"includeDeclaration": True}))
    s.stop()
    return d is None and len(refs) == 1 and rename_breaks(files, "main.asm", 0, 0, "val", cmd="test")


def f18():
    n = 0
    for src, l, c in (('.loop 2 { lda #index }\n', 0, 16),
                      ('.define segment {\n name = "code"\n start = $1000\n}\nlda segments.code.start\n', 4, 14)):
        s = session({"main.asm": src})
        p = res(s.pos("prepareRename", "main.asm", l, c))
        r = s.pos("rename", "main.asm", l, c, newName="zz")
        s.stop()
        n += p is not None and isinstance(r, dict) and "error" not in r and res(r) is None
    return n == 2


def f19():
    files = {"main.asm": "lda unknown\n   nop\n"}
    s = session(files)
    r = s.doc("formatting", "main.asm", options={"tabSize": 4, "insertSpaces": True})
    s.stop()
    rc, _, disk = run_cli(files, "format")
    return isinstance(r, dict) and "error" not in r and res(r) is None and rc == 0 and disk["main.asm"] != files["main.asm"]


def f20():
    n = 1000
    src = "".join("l%d: lda l%d\n" % (i, (i + 1) % n) for i in range(n))
    t = time.time()
    rc, _, _ = run_cli({"main.asm": src}, "format")
    cli = time.time() - t
    s = session({"main.asm": src})
    s.sync()
    t = time.time()
    r = s.doc("formatting", "main.asm", timeout=15, options={"tabSize": 4, "insertSpaces": True})
    lsp = time.time() - t
    s.stop()
    return rc == 0 and cli < 3 and (r == "TIMEOUT" or lsp > 10 * max(cli, 0.3))


def f21():
    src = '.define bank {\n name = "b1"\n}\n.define segment {\n name = "s1"\n start = $1000\n}\n.define segment {\n name = "s2"\n start = $2000\n}\n.segment "s1" { nop }\n'
    s = session({"main.asm": src})
    s.sync()
    d = s.diags()
    s.stop()
    rc, _, _ = run_cli({"main.asm": src})
    return rc != 0 and d != {} and all(v == [] for v in d.values())


def f22():
    base = tempfile.mkdtemp(prefix="mosrepro")
    real = os.path.join(base, "real")
    link = os.path.join(base, "link")
    os.makedirs(real)
    os.symlink(real, link)
    s = Lsp({"main.asm": "nop\n"}, root=link, cwd=link)
    s.init()
    s.open("main.asm", "lda unknown\n")
    s.sync()
    d = s.diags()
    s.stop()
    return not any(v for v in d.values())


def f23():
    src = "lda zz\rlda yy\r"
    s = session({"main.asm": src})
    s.sync()
    d = s.diags()
    s.stop()
    # by the protocol a lone CR ends a line: `yy` is at 1:4, the server reports line 0
    return any(x["message"].endswith("yy") and x["range"]["start"] == {"line": 0, "character": 11} for v in d.values() for x in v)


def f24():
    def comp(src, l, c):
        s = session({"main.asm": src})
        r = res(s.pos("completion", "main.asm", l, c))
        s.stop()
        return sorted(x["label"] for x in r)
    a_src = 'outer: {\n  dex\n  bne outer\n  jmp \n}\n'
    b_src = '.loop 2 {\n lda #index\n lda #\n}\n'
    builds = run_cli({"main.asm": 'outer: {\n  dex\n  bne outer\n  jmp outer\n}\n.loop 2 {\n lda #index\n}\n'})[0] == 0
    return builds and "outer" not in comp(a_src, 3, 6) and "index" not in comp(b_src, 2, 6)


def f25():
    src = '.import * from "b.asm"\n'
    s = session({"main.asm": src, "b.asm": "nop\n"})
    r = res(s.pos("definition", "main.asm", 0, 17))
    s.stop()
    o = r[0]["originSelectionRange"]
    # the string literal is 15..22, its content 16..21
    return (o["start"]["character"], o["end"]["character"]) == (15, 21)


FINDINGS = [
    ("F01", "unknown request method is never answered (no MethodNotFound)", f01),
    ("F02", "request/notification with malformed params kills the server", f02),
    ("F03", "initialize with params that do not deserialize: answered, then the server panics", f03),
    ("F04", "columns are counted in code points, not UTF-16 units: definition range wrong, rename corrupts text", f04),
    ("F05", "URI with a non-UTF-8 path kills the server (hover, completion, codeLens)", f05),
    ("F06", "workspace/symbol overflows the stack on a recursive import", f06),
    ("F07", "documentSymbol: children lie outside the range of their parent", f07),
    ("F08", "workspace/symbol never returns nested symbols", f08),
    ("F09", "semantic token of a multi-line value runs past the end of its line (byte length)", f09),
    ("F10", "semantic tokens: the readonly modifier of constants is never set (bitset = sum of indices)", f10),
    ("F11", "codeLens of a file lists the tests of imported files at positions of those files", f11),
    ("F12", "argument `a` of `m(a)` navigates to the macro parameter `a`, not the outer constant; rename breaks the build", f12),
    ("F13", "references/documentHighlight return duplicates", f13),
    ("F14", "rename of a symbol of a file that is imported twice updates the usages of one import only", f14),
    ("F15", "rename does not validate the new name (empty, not an identifier, colliding, shadowed)", f15),
    ("F16", "rename on `-` overwrites the opening brace of the block", f16),
    ("F17", "usages inside `.test` blocks are invisible to definition/references/rename", f17),
    ("F18", "prepareRename approves positions rename refuses (loop index, segments.<name>)", f18),
    ("F19", "formatting answers null when codegen reports an error; `mos format` formats the file", f19),
    ("F20", "formatting a 1000-line file blocks the server for a long time (`mos format`: well under a second)", f20),
    ("F21", "errors without a source label are never published (project does not build, no diagnostics)", f21),
    ("F22", "workspace reached through a symlink: every buffer is ignored", f22),
    ("F23", "a lone CR is not treated as a line terminator", f23),
    ("F24", "completion omits the enclosing label(s) and the loop `index`, which the assembler resolves there", f24),
    ("F25", "range of an import's file name covers the opening quote but not the closing one", f25),
]

if __name__ == "__main__":
    if len(sys.argv) < 2:
        print(__doc__)
        sys.exit(2)
    MOS = os.path.join(os.path.abspath(sys.argv[1]), "target", "debug", "mos")
    only = sys.argv[2:]
    for fid, title, fn in FINDINGS:
        if only and fid not in only:
            continue
        try:
            ok = fn()
        except Exception as e:  # a finding that cannot be replayed counts as not reproduced
            ok = False
            title += "  [exception: %r]" % (e,)
        print("%s %s  %s" % (fid, "REPRODUCED" if ok else "not reproduced", title), flush=True)
