from lspc import *
import json
MOS="/tmp/hunt/lsp/target/debug/mos"
files={"main.asm":'.import * from "t.asm"\nnop\n',"t.asm":'// 1\n// 2\n// 3\n// 4\n        .test "imported" { .assert 1 == 1\n brk }\n'}
s=Lsp(MOS,tmp(),files); s.init(); s.open("main.asm",files["main.asm"])
for n in ["main.asm","t.asm"]:
    r=s.doc("codeLens",n); print(n, json.dumps([(x["range"],x["command"]["title"],x["command"]["arguments"]) for x in r["result"]]))
s.stop()
print("imported test depending on importer")
files={"main.asm":'.const K = 1\n.import * from "t.asm"\nnop\n',"t.asm":'.test "t" { .assert K == 1\n brk }\n'}
s=Lsp(MOS,tmp(),files); s.init(); s.open("main.asm",files["main.asm"])
for n in ["main.asm","t.asm"]:
    r=s.doc("codeLens",n); print(n, json.dumps([(x["range"],x["command"]["title"],x["command"]["arguments"]) for x in r["result"]]))
s.stop()
import subprocess
print(subprocess.run([MOS,"test"],cwd=s.root,capture_output=True,text=True).stdout[-300:])
