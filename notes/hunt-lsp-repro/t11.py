from lspc import *
import json
MOS="/tmp/hunt/lsp/target/debug/mos"
def comp(src, queries, extra=None, name="main.asm", buf=None):
    files={"main.asm":src}; files.update(extra or {})
    s=Lsp(MOS,tmp(),files); s.init(); s.open(name,buf if buf is not None else files[name])
    for (l,c) in queries:
        r=s.pos("completion",name,l,c)
        res=r.get("result") if isinstance(r,dict) else r
        if isinstance(res,list): res=sorted(x["label"] for x in res)
        if isinstance(res,list) and len(res)>12: res=res[:12]+["...%d"%len(res)]
        print("  %d:%d ->"%(l,c),res)
    if not s.alive(): print("  DIED","".join(s.err)[-400:])
    s.stop()
print("A scopes")
src='outer: {\n  .const inner_c = 1\n  deep: { .const d = 2 }\n  lda \n}\n.const top = 3\nlda outer.\nld\n'
comp(src,[(3,6),(6,10),(7,2),(6,4),(0,0),(99,0),(3,99),(6,4294967295)])
print("B multi-byte")
src='vic: { .const é = 1\n .const border = 2 }\n/* 😀 */ lda vic.\n'
comp(src,[(2,16),(2,17),(2,15)])
print("C macro + loop scopes")
src='.macro m(arg) {\n lda #\n}\nm(1)\n.loop 2 {\n lda #\n}\n'
comp(src,[(1,6),(5,6)])
print("D file not in project")
comp('nop\n',[(0,2)],{"o.asm":"ld\n"},name="o.asm")
print("E imported file completions")
comp('.import * from "b.asm"\nlda \n',[(1,4)],{"b.asm":"foo: {\n lda \n .const k = 1 }\n"})
comp('.import * from "b.asm"\nlda \n',[(1,4),(2,3)],{"b.asm":"foo: {\n lda foo\n .const k = 1 }\n"},name="b.asm")
