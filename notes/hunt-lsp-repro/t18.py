from lspc import *
import time
MOS="/tmp/hunt/lsp/target/debug/mos"
for n in (500,1000,1500):
    src="".join("l%d: lda l%d\n"%(i,(i+1)%n) for i in range(n))
    s=Lsp(MOS,tmp(),{"main.asm":src}); s.init(); s.open("main.asm",src); s.sync()
    t=time.time(); r=s.doc("formatting","main.asm",options={"tabSize":4,"insertSpaces":True}); 
    print(n,"%.1fs"%(time.time()-t), len(r["result"]) if isinstance(r,dict) else r); s.stop()
