from lspc import *
MOS="/tmp/hunt/lsp/target/debug/mos"
def u16len(s): return sum(2 if ord(c)>0xffff else 1 for c in s)
for src in ['foo: {','foo: {\n','lda #','.macro m(','.const x = "abc','lda foo\n/* unterminated','.if 1 {\n nop\n','.text "é\n','lda $10000\n','.byte 256, -1\n','bne far\n.align 256\n.align 256\nfar: nop\n', '.import * from "\n', 'lda #1 +\n', '﻿lda #1\nlda zz\n', 'lda\tzz\n', '.segment "nope" { nop }\n','\r\n\r\nlda zz\r\n','lda zz\rlda yy\r']:
    s=Lsp(MOS,tmp(),{"main.asm":src}); s.init(); s.open("main.asm",src); s.sync()
    lines=src.split("\n"); probs=[]
    for v in s.diags().values():
        for (l1,c1,l2,c2,msg) in v:
            ok = l1<len(lines) and l2<len(lines) and (l1,c1)<=(l2,c2) and c1<=u16len(lines[l1].rstrip("\r")) and c2<=u16len(lines[l2].rstrip("\r"))
            print("  %r -> %s %s %s"%(src,(l1,c1,l2,c2),msg[:50],"" if ok else "** OUT OF DOC"))
    if not s.alive(): print("DIED",src,"".join(s.err)[-300:])
    s.stop()
