from ren import *
def T(title,files,f,needle,nth,off,new):
    print("==",title); return check(files,f,needle,nth,off,new)
T("super in middle",{"main.asm":'lda a.super.b.foo\na: {foo: nop}\nb: {foo: nop}\n'},"main.asm","b:",0,0,"bb")
T("super in middle, rename a",{"main.asm":'lda a.super.b.foo\na: {foo: nop}\nb: {foo: nop}\n'},"main.asm","a:",0,0,"aa")
T("rename into shadow",{"main.asm":'x: nop\n{ y: nop\n lda x\n lda y }\n'},"main.asm","x",0,0,"y")
T("rename scope label w/ children usage",{"main.asm":'vic: { .const border = $d020 }\nlda vic.border\n{ lda vic.border\n vic: nop }\n'},"main.asm","vic",0,0,"v")
T("label used by +/-",{"main.asm":'l: { dex\n bne -\n bne l }\n'},"main.asm","l",0,0,"loop")
T("const in config",{"main.asm":'.const base = $2000\n.define segment { name = "c"\n start = base }\n.segment "c" { lda base }\n'},"main.asm","base",0,0,"org")
T("test w/ assert",{"main.asm":'v: .byte 1\n.test "t" { lda v\n .assert a == v "v is {v}"\n brk }\n'},"main.asm","v",0,0,"val")
T("trace",{"main.asm":'v: nop\n.trace (v, v + 1)\n'},"main.asm","v",0,0,"val")
T("file directive interp",{"main.asm":'.const n = "x"\n.file "{n}.bin"\n',"x.bin":"A"},"main.asm","n",0,0,"name")
T("import filename interp",{"main.asm":'.const n = "b"\n.import * from "{n}.asm"\n',"b.asm":"nop\n"},"main.asm","n",0,0,"name")
