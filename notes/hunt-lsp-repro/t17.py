from lspc import *
import json, time
MOS="/tmp/hunt/lsp/target/debug/mos"
def run(title,src,reqs):
    s=Lsp(MOS,tmp(),{"main.asm":"nop\n"}); s.init()
    t=time.time(); s.open("main.asm",src); r=s.req("workspace/symbol",{"query":"zzz"},timeout=120); print(title,"open+sync %.1fs"%(time.time()-t), str(r)[:80])
    for m,p in reqs:
        t=time.time(); p2={"textDocument":{"uri":s.uri("main.asm")}}; p2.update(p); r=s.req("textDocument/"+m,p2,timeout=120); print("  ",m,"%.1fs"%(time.time()-t),str(r)[:100])
    print("  alive",s.alive(),"".join(s.err)[-300:]); s.stop()
run("20k nops","nop\n"*20000,[("semanticTokens/full",{}),("formatting",{"options":{"tabSize":4,"insertSpaces":True}})])
run("3k labels","".join("l%d: lda l%d\n"%(i,(i+1)%3000) for i in range(3000)),[("semanticTokens/full",{}),("definition",{"position":{"line":10,"character":9}}),("documentSymbol",{}),("formatting",{"options":{"tabSize":4,"insertSpaces":True}})])
run("deep nesting","{"*3000+"}"*3000,[("semanticTokens/full",{}),("documentSymbol",{})])
run("deep labels","".join("a%d: {"%i for i in range(400))+"}"*400,[("semanticTokens/full",{}),("documentSymbol",{}),("formatting",{"options":{"tabSize":4,"insertSpaces":True}})])
run("long expr","lda "+"1+"*5000+"1\n",[("semanticTokens/full",{})])
run("deep parens","lda "+"("*2000+"1"+")"*2000+"\n",[("semanticTokens/full",{})])
run("long line","lda #1 //"+"x"*2000000+"\n",[("semanticTokens/full",{})])
