//! fmtdrive <cases.ndjson> <obs.ndjson>: run the formatter in-process on each case and record what it did.
//!
//! case: {id, files:{name:text}, entry, opts:{mcase,rcase,brace,indent,lm,align,cm}, asm:bool}
//! obs : {id, panic, parse_diags, ok, files:[{name, src, fmt, fmt2, ast, ast_fmt, comments, comments_fmt, lex, lex_fmt,
//!        dropgap:[{text, owner}], fmt_lines, fmt2_lines (per line: n leading blanks, s rest, q rest without blanks, lc = label followed only by a comment, lo = only labels are left once comments are removed, cs = starts with a comment, el = only `else` is left once comments are removed, cont = starts inside a block comment)}], reparse_diags, asm_before, asm_after}
//!
//! Nothing here judges: the observation is only reshaped (normalised AST strings, comment lists, line splits) for TLC.
use mos_core::codegen::{codegen, CodegenOptions};
use mos_core::formatting::{
    format, Alignment, BraceOptions, BracePosition, Casing, FormattingOptions, MnemonicOptions, WhitespaceOptions,
};
use mos_core::parser::source::InMemoryParsingSource;
use mos_core::parser::{parse, Block, ParseTree, Token, Trivia};
use mosverif::{diags_to_json, guarded, install_panic_hook};
use serde_json::{json, Value};
use std::collections::BTreeMap;
use std::path::Path;
use std::sync::Arc;

fn opts_from(v: &Value) -> FormattingOptions {
    let s = |k: &str, d: &str| v.get(k).and_then(|x| x.as_str()).unwrap_or(d).to_string();
    let n = |k: &str, d: u64| v.get(k).and_then(|x| x.as_u64()).unwrap_or(d) as usize;
    let casing = |x: String| if x == "u" { Casing::Uppercase } else { Casing::Lowercase };
    FormattingOptions {
        mnemonics: MnemonicOptions {
            casing: casing(s("mcase", "l")),
            register_casing: casing(s("rcase", "l")),
        },
        braces: BraceOptions {
            position: if s("brace", "same") == "new" {
                BracePosition::NewLine
            } else {
                BracePosition::SameLine
            },
        },
        whitespace: WhitespaceOptions {
            indent: n("indent", 4),
            label_margin: n("lm", 20),
            label_alignment: if s("align", "r") == "l" {
                Alignment::Left
            } else {
                Alignment::Right
            },
            code_margin: n("cm", 30),
        },
        listing: Default::default(),
    }
}

fn parse_files(files: &BTreeMap<String, String>, entry: &str) -> (Option<Arc<ParseTree>>, mos_core::errors::Diagnostics) {
    let mut src = InMemoryParsingSource::new();
    for (name, text) in files {
        src = src.add(name.clone(), text);
    }
    parse(Path::new(entry), src.into())
}

/// Debug rendering of a token with every `span: ..` and `trivia: ..` field removed (positions and trivia are
/// exactly what formatting is allowed to change). String/char literals of the Debug text are respected.
fn normalised_debug(tok: &Token) -> String {
    let s: Vec<char> = format!("{:?}", tok).chars().collect();
    let mut out = String::new();
    let mut i = 0;
    let starts = |i: usize, pat: &str| -> bool {
        let p: Vec<char> = pat.chars().collect();
        i + p.len() <= s.len() && s[i..i + p.len()] == p[..]
    };
    // skip one Debug value starting at i, return index after it
    let skip_value = |mut i: usize| -> usize {
        let mut depth = 0i32;
        while i < s.len() {
            let c = s[i];
            match c {
                '"' => {
                    i += 1;
                    while i < s.len() && s[i] != '"' {
                        if s[i] == '\\' {
                            i += 1;
                        }
                        i += 1;
                    }
                    i += 1;
                    continue;
                }
                '\'' => {
                    // char literal: '\x' or 'x'
                    if i + 1 < s.len() && s[i + 1] == '\\' {
                        i += 2;
                        while i < s.len() && s[i] != '\'' {
                            i += 1;
                        }
                        i += 1;
                    } else {
                        i += 3;
                    }
                    continue;
                }
                '(' | '{' | '[' => depth += 1,
                ')' | '}' | ']' => {
                    if depth == 0 {
                        return i;
                    }
                    depth -= 1;
                }
                ',' => {
                    if depth == 0 {
                        return i;
                    }
                }
                _ => {}
            }
            i += 1;
        }
        i
    };
    while i < s.len() {
        let c = s[i];
        if c == '"' {
            let st = i;
            i += 1;
            while i < s.len() && s[i] != '"' {
                if s[i] == '\\' {
                    i += 1;
                }
                i += 1;
            }
            i += 1;
            out.extend(s[st..i.min(s.len())].iter());
            continue;
        }
        if c == '\'' {
            let st = i;
            if i + 1 < s.len() && s[i + 1] == '\\' {
                i += 2;
                while i < s.len() && s[i] != '\'' {
                    i += 1;
                }
                i += 1;
            } else {
                i += 3;
            }
            out.extend(s[st..i.min(s.len())].iter());
            continue;
        }
        let prev_ident = i > 0 && (s[i - 1].is_alphanumeric() || s[i - 1] == '_');
        if !prev_ident && (starts(i, "span: ") || starts(i, "trivia: ")) {
            let after = if starts(i, "span: ") { i + 6 } else { i + 8 };
            let mut j = skip_value(after);
            if starts(j, ", ") {
                j += 2;
            } else if out.ends_with(", ") {
                out.truncate(out.len() - 2);
            }
            i = j;
            continue;
        }
        out.push(c);
        i += 1;
    }
    out
}

fn norm_comment(c: &str) -> String {
    c.split('\n').map(|l| l.trim()).collect::<Vec<_>>().join("\n")
}

/// Lexical scan: (comments in order, text with trivia removed and lower-cased, per-line flag "line starts inside a block comment")
fn lex_scan(text: &str) -> (Vec<String>, String, Vec<bool>) {
    let s: Vec<char> = text.chars().collect();
    let mut comments = vec![];
    let mut lex = String::new();
    let mut in_comment_at_line_start = vec![false];
    let mut i = 0;
    while i < s.len() {
        let c = s[i];
        if c == '"' {
            lex.push(c);
            i += 1;
            while i < s.len() && s[i] != '"' && s[i] != '\n' {
                lex.push(s[i]);
                i += 1;
            }
            if i < s.len() && s[i] == '"' {
                lex.push('"');
                i += 1;
            }
            continue;
        }
        if c == '/' && i + 1 < s.len() && s[i + 1] == '/' {
            let st = i;
            while i < s.len() && s[i] != '\n' && s[i] != '\r' {
                i += 1;
            }
            comments.push(norm_comment(&s[st..i].iter().collect::<String>()));
            continue;
        }
        if c == '/' && i + 1 < s.len() && s[i + 1] == '*' {
            let st = i;
            let mut depth = 0;
            while i < s.len() {
                if s[i] == '/' && i + 1 < s.len() && s[i + 1] == '*' {
                    depth += 1;
                    i += 2;
                } else if s[i] == '*' && i + 1 < s.len() && s[i + 1] == '/' {
                    depth -= 1;
                    i += 2;
                    if depth == 0 {
                        break;
                    }
                } else {
                    if s[i] == '\n' {
                        in_comment_at_line_start.push(true);
                    }
                    i += 1;
                }
            }
            comments.push(norm_comment(&s[st..i.min(s.len())].iter().collect::<String>()));
            continue;
        }
        if c == '\n' {
            in_comment_at_line_start.push(false);
        }
        if !c.is_whitespace() {
            for l in c.to_lowercase() {
                lex.push(l);
            }
        }
        i += 1;
    }
    (comments, lex, in_comment_at_line_start)
}

fn trivia_comments(t: &Option<Box<mos_core::parser::Located<Vec<Trivia>>>>) -> Vec<String> {
    let mut out = vec![];
    if let Some(t) = t {
        for x in &t.data {
            match x {
                Trivia::CStyle(c) | Trivia::CppStyle(c) => out.push(norm_comment(c)),
                _ => {}
            }
        }
    }
    out
}

/// Comments that sit between the head of a statement and the opening brace of its block (the gap whose trivia
/// `format_block` discards), with the kind of the owning statement. A bare `{` statement is not listed: there the
/// brace's trivia is the statement's leading trivia.
fn walk_blocks(tokens: &[Token], out: &mut Vec<Value>) {
    fn blk(owner: &str, b: &Block, out: &mut Vec<Value>, list_lparen: bool) {
        if list_lparen {
            for c in trivia_comments(&b.lparen.trivia) {
                out.push(json!({"text": c, "owner": owner}));
            }
        }
        walk_blocks(&b.inner, out);
    }
    for t in tokens {
        match t {
            Token::Braces { block, .. } => blk("braces", block, out, false),
            Token::Config(block) => blk("config", block, out, true),
            Token::ConfigPair { value, .. } => {
                // the value's leading trivia lives on the Located wrapper (forwarded); a nested map has none on its brace
                walk_blocks(std::slice::from_ref(&value.data), out)
            }
            Token::Definition { value, .. } => {
                if let Some(v) = value {
                    if let Token::Config(b) = v.as_ref() {
                        blk("define", b, out, true)
                    }
                }
            }
            Token::If { if_, else_, .. } => {
                blk("if", if_, out, true);
                if let Some(e) = else_ {
                    blk("else", e, out, true)
                }
            }
            Token::Import { block, args, .. } => {
                // comments on the Located wrapper of a named import argument (the formatter used only its .data)
                if let mos_core::parser::ImportArgs::Specific(list) = args {
                    for (arg, _) in list {
                        for c in trivia_comments(&arg.trivia) {
                            out.push(json!({"text": c, "owner": "import-arg"}));
                        }
                    }
                }
                if let Some(b) = block {
                    blk("import", b, out, true)
                }
            }
            Token::Label { block, .. } => {
                if let Some(b) = block {
                    blk("label", b, out, true)
                }
            }
            Token::Loop { block, .. } => blk("loop", block, out, true),
            Token::MacroDefinition { block, .. } => blk("macro", block, out, true),
            Token::Segment { block, .. } => {
                if let Some(b) = block {
                    blk("segment", b, out, true)
                }
            }
            Token::Test { block, .. } => blk("test", block, out, true),
            _ => {}
        }
    }
}

fn split_lines(text: &str) -> Vec<Value> {
    let (_, _, incom) = lex_scan(text);
    text.split('\n')
        .enumerate()
        .map(|(i, l)| {
            let body = l.trim_start_matches(' ');
            let q: String = body.chars().filter(|c| !c.is_whitespace()).collect();
            // lc: the line is "<identifier>:" followed only by blanks and then a comment
            let idlen = body.chars().take_while(|c| c.is_alphanumeric() || *c == '_').count();
            let after = body[idlen.min(body.len())..].strip_prefix(':').map(|r| r.trim_start());
            let lc = idlen > 0 && after.map(|r| r.starts_with("//") || r.starts_with("/*")).unwrap_or(false);
            // the line with its comments removed (cont lines are inside a comment to begin with)
            let starts_in_comment = incom.get(i).copied().unwrap_or(false);
            let code = {
                let mut t = body.to_string();
                while let (Some(a), Some(b)) = (t.find("/*"), t.find("*/")) {
                    if b < a {
                        break;
                    }
                    t.replace_range(a..b + 2, " ");
                }
                if let Some(a) = t.find("//") {
                    t.truncate(a);
                }
                if let Some(a) = t.find("/*") {
                    t.truncate(a); // a block comment that continues on the next line
                }
                t.trim().to_string()
            };
            // el: only `else` is left; lo: only labels are left
            let el = !starts_in_comment && code == "else";
            let lo = !starts_in_comment && {
                let words: Vec<&str> = code.split_whitespace().collect();
                !words.is_empty()
                    && words.iter().all(|w| {
                        let n = w.chars().take_while(|c| c.is_alphanumeric() || *c == '_').count();
                        n > 0 && &w[n..] == ":"
                    })
            };
            json!({"n": l.len() - body.len(), "s": body, "q": q, "lc": lc, "lo": lo, "el": el, "cs": body.starts_with("//") || body.starts_with("/*"), "cont": incom.get(i).copied().unwrap_or(false)})
        })
        .collect()
}

/// Assemble a project (parse + codegen) on a thread of its own; an assembly that does not come back within
/// ASM_LIMIT (e.g. a macro that invokes itself) is recorded as such: it is the assembler's business (C06), the
/// formatter check only compares what both sides report.
fn assemble(files: &BTreeMap<String, String>, entry: &str) -> Value {
    let files = files.clone();
    let entry = entry.to_string();
    let (tx, rx) = std::sync::mpsc::channel();
    std::thread::Builder::new()
        .stack_size(256 << 20)
        .spawn(move || {
            let r = guarded(std::panic::AssertUnwindSafe(move || {
                let (tree, diags) = parse_files(&files, &entry);
                match tree {
                    Some(t) if diags.is_empty() => Some(codegen(t, CodegenOptions { pc: 0x2000.into(), ..Default::default() })),
                    _ => None,
                }
            }));
            let v = match r {
                Err(p) => json!({"panic": p, "ok": false, "msgs": [], "segs": []}),
                Ok(None) => json!({"panic": "", "ok": false, "msgs": ["<does not parse>"], "segs": []}),
                Ok(Some((ctx, errs))) => {
                    let mut msgs: Vec<String> = errs.iter().map(|d| d.message.clone()).collect();
                    msgs.sort();
                    let segs: Vec<Value> = match &ctx {
                        Some(c) if errs.is_empty() => c
                            .segments()
                            .iter()
                            .map(|(name, seg)| json!({"name": name.to_string(), "start": seg.range().start, "bytes": seg.range_data().to_vec()}))
                            .collect(),
                        _ => vec![],
                    };
                    json!({"panic": "", "ok": errs.is_empty(), "msgs": msgs, "segs": segs})
                }
            };
            let _ = tx.send(v);
        })
        .unwrap();
    match rx.recv_timeout(std::time::Duration::from_secs(5)) {
        Ok(v) => v,
        Err(_) => json!({"panic": "", "ok": false, "msgs": ["<assembly does not terminate within 5s>"], "segs": []}),
    }
}

fn run(case: &Value) -> Value {
    let id = case["id"].clone();
    let files: BTreeMap<String, String> = serde_json::from_value(case["files"].clone()).expect("files");
    let entry = case.get("entry").and_then(|e| e.as_str()).unwrap_or("main.asm").to_string();
    let options = opts_from(&case["opts"]);
    let want_asm = case.get("asm").and_then(|a| a.as_bool()).unwrap_or(false);
    let mut obs = json!({"id": id, "panic": "", "ok": false, "parse_diags": [], "files": [], "reparse_diags": [], "reparse_ok": false,
                         "asm": false, "asm_before": Value::Null, "asm_after": Value::Null});

    let f1 = files.clone();
    let e1 = entry.clone();
    let (tree, diags) = match guarded(move || parse_files(&f1, &e1)) {
        Ok(x) => x,
        Err(p) => {
            obs["panic"] = json!(format!("parse: {}", p));
            return obs;
        }
    };
    obs["parse_diags"] = json!(diags_to_json(&diags));
    let tree = match tree {
        Some(t) if diags.is_empty() => t,
        _ => return obs,
    };
    obs["ok"] = json!(true);

    // format every file of the project
    let mut names: Vec<String> = tree.files.keys().map(|p| p.to_string_lossy().to_string()).collect();
    names.sort();
    let mut formatted: BTreeMap<String, String> = files.clone();
    let mut recs: Vec<Value> = vec![];
    for name in &names {
        let t2 = tree.clone();
        let n2 = name.clone();
        let text = match guarded(std::panic::AssertUnwindSafe(move || format(n2.as_str(), t2, options))) {
            Ok(t) => t,
            Err(p) => {
                obs["panic"] = json!(format!("format: {}", p));
                return obs;
            }
        };
        let toks = &tree.files[Path::new(name)].tokens;
        let ast: Vec<String> = toks.iter().filter(|t| !matches!(t, Token::Eof(_))).map(normalised_debug).collect();
        let (comments, lex, _) = lex_scan(&files[name]);
        let mut dropgap = vec![];
        walk_blocks(toks, &mut dropgap);
        formatted.insert(name.clone(), text.clone());
        recs.push(json!({"name": name, "src": files[name], "fmt": text, "ast": ast, "comments": comments, "lex": lex, "dropgap": dropgap,
                         "fmt2": "", "ast_fmt": [], "comments_fmt": [], "lex_fmt": "", "fmt_lines": split_lines(&text), "fmt2_lines": []}));
    }

    // re-parse the formatted project, format it again
    let f2 = formatted.clone();
    let e2 = entry.clone();
    let (tree2, diags2) = match guarded(move || parse_files(&f2, &e2)) {
        Ok(x) => x,
        Err(p) => {
            obs["panic"] = json!(format!("reparse: {}", p));
            obs["files"] = json!(recs);
            return obs;
        }
    };
    obs["reparse_diags"] = json!(diags_to_json(&diags2));
    if let Some(tree2) = tree2.as_ref() {
        obs["reparse_ok"] = json!(diags2.is_empty());
        for r in recs.iter_mut() {
            let name = r["name"].as_str().unwrap().to_string();
            let (comments, lex, _) = lex_scan(&formatted[&name]);
            r["comments_fmt"] = json!(comments);
            r["lex_fmt"] = json!(lex);
            if let Some(pf) = tree2.files.get(Path::new(&name)) {
                let ast: Vec<String> = pf.tokens.iter().filter(|t| !matches!(t, Token::Eof(_))).map(normalised_debug).collect();
                r["ast_fmt"] = json!(ast);
                let t3 = tree2.clone();
                let n3 = name.clone();
                match guarded(std::panic::AssertUnwindSafe(move || format(n3.as_str(), t3, options))) {
                    Ok(t) => {
                        r["fmt2_lines"] = json!(split_lines(&t));
                        r["fmt2"] = json!(t);
                    }
                    Err(p) => {
                        obs["panic"] = json!(format!("format2: {}", p));
                    }
                }
            }
        }
    }
    obs["files"] = json!(recs);

    if want_asm {
        obs["asm"] = json!(true);
        obs["asm_before"] = assemble(&files, &entry);
        obs["asm_after"] = match tree2 {
            Some(_) if diags2.is_empty() => assemble(&formatted, &entry),
            _ => json!({"panic": "", "ok": false, "msgs": ["<formatted text does not parse>"], "segs": []}),
        };
    }
    obs
}

fn main() {
    use std::io::{BufRead, Write};
    let args: Vec<String> = std::env::args().collect();
    install_panic_hook();
    let inp = std::io::BufReader::new(std::fs::File::open(&args[1]).expect("open input"));
    let mut out = std::io::BufWriter::new(std::fs::File::create(&args[2]).expect("create output"));
    let limit = std::time::Duration::from_secs(
        std::env::var("FMTDRIVE_TIMEOUT").ok().and_then(|v| v.parse().ok()).unwrap_or(20),
    );
    for line in inp.lines() {
        let line = line.expect("read");
        if line.trim().is_empty() {
            continue;
        }
        let v: Value = serde_json::from_str(&line).expect("case json");
        let id = v["id"].clone();
        // every case on its own big-stack thread; a case that does not come back in time is recorded as a hang
        // (an observation, not a tool error) and its thread is abandoned
        let (tx, rx) = std::sync::mpsc::channel();
        std::thread::Builder::new()
            .stack_size(256 << 20)
            .spawn(move || {
                let _ = tx.send(run(&v));
            })
            .unwrap();
        let o = match rx.recv_timeout(limit) {
            Ok(o) => o,
            Err(_) => json!({"id": id, "panic": format!("hang: no result within {}s (parse/format/re-parse of this case does not terminate)", limit.as_secs()),
                             "ok": true, "parse_diags": [], "files": [], "reparse_diags": [], "reparse_ok": false,
                             "asm": false, "asm_before": Value::Null, "asm_after": Value::Null}),
        };
        writeln!(out, "{}", serde_json::to_string(&o).unwrap()).unwrap();
        out.flush().unwrap();
    }
    std::process::exit(0);
}
