//! bankdrive <cases.ndjson> <obs.ndjson> <scratch-dir>: assemble each case in-process, merge the segments into
//! banks (BinaryWriter::merge_segments) and write them (BinaryWriter::write_banks) into a scratch directory;
//! record segments, merged banks, every file written (bytes) or the diagnostics.  Drives and records only.
use mos_core::codegen::{codegen, CodegenOptions};
use mos_core::io::BinaryWriter;
use mosverif::{diags_to_json, guarded, install_panic_hook, parse_case, segments_json, Case};
use serde_json::{json, Value};
use std::path::{Path, PathBuf};

fn clean(dir: &Path) {
    let _ = std::fs::remove_dir_all(dir);
    std::fs::create_dir_all(dir).expect("scratch dir");
}

fn read_files(dir: &Path) -> Vec<Value> {
    let mut names: Vec<PathBuf> = std::fs::read_dir(dir)
        .map(|rd| rd.filter_map(|e| e.ok().map(|e| e.path())).collect())
        .unwrap_or_default();
    names.sort();
    names
        .into_iter()
        .filter(|p| p.is_file())
        .map(|p| {
            json!({"name": p.file_name().unwrap().to_string_lossy(),
                   "bytes": std::fs::read(&p).unwrap_or_default()})
        })
        .collect()
}

fn run(case: &Case, default_name: &str, scratch: &Path) -> Value {
    let mut obs = json!({"id": case.id, "ok": false, "stage": "parse", "panic": Value::Null,
                         "parse_diags": [], "diags": [], "files": [], "banks": [], "segments": []});
    let c2 = case.clone();
    let (tree, perr) = match guarded(move || parse_case(&c2)) {
        Ok(x) => x,
        Err(p) => {
            obs["panic"] = json!(p);
            return obs;
        }
    };
    obs["parse_diags"] = json!(diags_to_json(&perr));
    if !perr.is_empty() || tree.is_none() {
        return obs;
    }
    let tree = tree.unwrap();
    obs["stage"] = json!("codegen");
    let opts = CodegenOptions {
        pc: case.pc.into(),
        ..Default::default()
    };
    let (ctx, errs) = match guarded(std::panic::AssertUnwindSafe(move || codegen(tree, opts))) {
        Ok(x) => x,
        Err(p) => {
            obs["panic"] = json!(p);
            return obs;
        }
    };
    obs["diags"] = json!(diags_to_json(&errs));
    let ctx = match ctx {
        Some(c) if errs.is_empty() => c,
        _ => return obs,
    };
    obs["segments"] = json!(segments_json(&ctx, false));
    obs["stage"] = json!("merge");
    let banks = match guarded(std::panic::AssertUnwindSafe(|| BinaryWriter {}.merge_segments(&ctx))) {
        Ok(Ok(b)) => b,
        Ok(Err(e)) => {
            obs["diags"] = json!(diags_to_json(&e));
            return obs;
        }
        Err(p) => {
            obs["panic"] = json!(p);
            return obs;
        }
    };
    obs["banks"] = json!(banks
        .iter()
        .map(|b| json!({"name": b.options().name.to_string(), "start": b.range().start, "end": b.range().end,
                        "bytes": b.data().to_vec()}))
        .collect::<Vec<_>>());
    obs["stage"] = json!("write");
    clean(scratch);
    match guarded(std::panic::AssertUnwindSafe(|| BinaryWriter {}.write_banks(banks, scratch, default_name))) {
        Ok(Ok(())) => {
            obs["ok"] = json!(true);
        }
        Ok(Err(e)) => {
            obs["diags"] = json!(diags_to_json(&e));
        }
        Err(p) => {
            obs["panic"] = json!(p);
        }
    }
    obs["files"] = json!(read_files(scratch));
    obs
}

fn main() {
    let args: Vec<String> = std::env::args().collect();
    install_panic_hook();
    let (i, o, s) = (args[1].clone(), args[2].clone(), PathBuf::from(&args[3]));
    std::thread::Builder::new()
        .stack_size(256 << 20)
        .spawn(move || {
            mosverif::drive(&i, &o, |v| {
                let case: Case = serde_json::from_value(v.clone()).expect("case shape");
                let name = v.get("default_name").and_then(|x| x.as_str()).unwrap_or("out.bin").to_string();
                run(&case, &name, &s)
            })
        })
        .unwrap()
        .join()
        .unwrap();
}
