//! asmdrive <cases.ndjson> <obs.ndjson>: assemble each case in-process, record observations.
use mosverif::{install_panic_hook, run_case, Case};
fn main() {
    let args: Vec<String> = std::env::args().collect();
    install_panic_hook();
    // run on a big-stack thread so that deep recursion in the code under test is less likely to abort us
    let (i, o) = (args[1].clone(), args[2].clone());
    std::thread::Builder::new()
        .stack_size(256 << 20)
        .spawn(move || {
            mosverif::drive(&i, &o, |v| {
                let case: Case = serde_json::from_value(v.clone()).expect("case shape");
                serde_json::to_value(run_case(&case)).unwrap()
            })
        })
        .unwrap()
        .join()
        .unwrap();
}
