//! parsedrive <cases.ndjson> <obs.ndjson>: parse each text in-process; record diagnostics and the re-rendered tokens.
//! case: {id, text}   observation: {id, ndiags, diags, rendered, panic, ntokens}
use mosverif::{diags_to_json, guarded, install_panic_hook};
use mos_core::parser::parse;
use mos_core::parser::source::InMemoryParsingSource;
use serde_json::{json, Value};
use std::path::Path;

fn main() {
    let args: Vec<String> = std::env::args().collect();
    install_panic_hook();
    let (i, o) = (args[1].clone(), args[2].clone());
    std::thread::Builder::new()
        .stack_size(256 << 20)
        .spawn(move || {
            mosverif::drive(&i, &o, |v: &Value| {
                let text = v["text"].as_str().unwrap_or("").to_string();
                let id = v["id"].clone();
                let r = guarded(move || {
                    let src = InMemoryParsingSource::new().add("main.asm", &text);
                    let (tree, err) = parse(Path::new("main.asm"), src.into());
                    let rendered = tree.as_ref().map(|t| {
                        t.main_file().tokens.iter().map(|e| format!("{}", e)).collect::<Vec<_>>().join("")
                    });
                    let ntokens = tree.as_ref().map(|t| t.main_file().tokens.len()).unwrap_or(0);
                    (diags_to_json(&err), rendered, ntokens)
                });
                match r {
                    Ok((diags, rendered, ntokens)) => json!({"id": id, "ndiags": diags.len(), "diags": diags, "rendered": rendered, "panic": null, "ntokens": ntokens}),
                    Err(p) => json!({"id": id, "ndiags": 0, "diags": [], "rendered": null, "panic": p, "ntokens": 0}),
                }
            })
        })
        .unwrap()
        .join()
        .unwrap();
}
