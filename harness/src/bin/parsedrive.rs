//! parsedrive <cases.ndjson> <obs.ndjson>: parse each text in-process; record diagnostics and the re-rendered tokens.
//! case: {id, text [, files: {name: text}, render: name]}   observation: {id, ndiags, diags, rendered, panic, ntokens}
use mosverif::{diags_to_json, guarded, install_panic_hook};
use mos_core::parser::parse;
use mos_core::parser::source::InMemoryParsingSource;
use serde_json::{json, Value};
use std::path::Path;

fn main() {
    let args: Vec<String> = std::env::args().collect();
    install_panic_hook();
    let (i, o) = (args[1].clone(), args[2].clone());
    std::thread::Builder::new()
        .stack_size(256 << 20)
        .spawn(move || {
            mosverif::drive(&i, &o, |v: &Value| {
                let text = v["text"].as_str().unwrap_or("").to_string();
                let id = v["id"].clone();
                let extra: Vec<(String, String)> = v["files"]
                    .as_object()
                    .map(|m| m.iter().map(|(k, t)| (k.clone(), t.as_str().unwrap_or("").to_string())).collect())
                    .unwrap_or_default();
                let render: Option<String> = v["render"].as_str().map(|s| s.to_string());
                let r = guarded(move || {
                    // optional: further files of the project ({name: text}) and the name of the file whose tokens are rendered
                    let mut src = InMemoryParsingSource::new().add("main.asm", &text);
                    for (name, t) in &extra {
                        src = src.add(name.as_str(), t.as_str());
                    }
                    let (tree, err) = parse(Path::new("main.asm"), src.into());
                    let pick = |t: &std::sync::Arc<mos_core::parser::ParseTree>| match &render {
                        Some(name) => t.try_get_file(name.as_str()).cloned(),
                        None => Some(t.main_file().clone()),
                    };
                    let rendered = tree.as_ref().and_then(|t| pick(t)).map(|f| {
                        f.tokens.iter().map(|e| format!("{}", e)).collect::<Vec<_>>().join("")
                    });
                    let ntokens = tree.as_ref().and_then(|t| pick(t)).map(|f| f.tokens.len()).unwrap_or(0);
                    (diags_to_json(&err), rendered, ntokens)
                });
                match r {
                    Ok((diags, rendered, ntokens)) => json!({"id": id, "ndiags": diags.len(), "diags": diags, "rendered": rendered, "panic": null, "ntokens": ntokens}),
                    Err(p) => json!({"id": id, "ndiags": 0, "diags": [], "rendered": null, "panic": p, "ntokens": 0}),
                }
            })
        })
        .unwrap()
        .join()
        .unwrap();
}
