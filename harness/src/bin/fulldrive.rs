//! fulldrive <cases.ndjson> <obs.ndjson> [start_index]
//! Runs the whole in-process pipeline on each project: parse, codegen as `mos build` does it, codegen in the language
//! server's greedy analysis mode, format every file, merge banks, symbol file text, listings -- and records one lifecycle per project.
//! Each project runs on its own thread with a watchdog (a hang is an observation); a panic is caught and recorded.
//! A stack overflow / abort kills this process: the caller sees a short output file and restarts after the culprit.
//! case: {id, files: {name: text}, entry}
//! obs : {id, end: "done"|"panic"|"hang", panic, events: [...]}
use mos_core::codegen::{codegen, CodegenOptions};
use mos_core::formatting::{format, FormattingOptions};
use mos_core::io::{to_listing, to_vice_symbols, BinaryWriter};
use mosverif::{diags_to_json, guarded, install_panic_hook, parse_case, symbols_json, Case};
use serde_json::{json, Value};
use std::cell::RefCell;
use std::collections::hash_map::DefaultHasher;
use std::collections::HashSet;
use std::hash::{Hash, Hasher};
use std::io::{BufRead, Write};
use std::rc::Rc;
use std::sync::mpsc;
use std::time::Duration;

const PASS_CAP: usize = 250; // above the assembler's own bound on the number of passes

fn digest(v: &Value) -> i64 {
    let mut h = DefaultHasher::new();
    v.to_string().hash(&mut h);
    (h.finish() & 0x3fff_ffff) as i64
}

fn run_codegen(case: &Case, tree: std::sync::Arc<mos_core::parser::ParseTree>, greedy: bool, events: &mut Vec<Value>) -> Result<Option<mos_core::codegen::CodegenContext>, String> {
    let seen: Rc<RefCell<HashSet<i64>>> = Default::default();
    let digests: Rc<RefCell<Vec<i64>>> = Default::default();
    let repeated: Rc<RefCell<bool>> = Default::default();
    let capped: Rc<RefCell<bool>> = Default::default();
    {
        let (seen, digests, repeated, capped) = (seen.clone(), digests.clone(), repeated.clone(), capped.clone());
        mos_core::codegen::verif_hooks::set_pass_observer(Some(Box::new(move |ctx, errs| {
            let mut und: Vec<String> = ctx.verif_undefined().into_iter().map(|(s, id, sp)| format!("{}:{}:{:?}", s, id, sp.map(|x| x.low().as_usize()))).collect();
            und.sort();
            let state = json!({"syms": symbols_json(ctx), "undef": und, "errs": diags_to_json(errs)});
            let d = digest(&state);
            digests.borrow_mut().push(d);
            if !seen.borrow_mut().insert(d) {
                *repeated.borrow_mut() = true; // informational: the assembler bounds its passes itself
            }
            if digests.borrow().len() >= PASS_CAP {
                *capped.borrow_mut() = true;
                return true;
            }
            false
        })));
    }
    let opts = CodegenOptions {
        pc: case.pc.into(),
        enable_greedy_analysis: greedy,
        ..Default::default()
    };
    let res = guarded(std::panic::AssertUnwindSafe(move || codegen(tree, opts)));
    mos_core::codegen::verif_hooks::set_pass_observer(None);
    let mode = if greedy { "greedy" } else { "build" };
    match res {
        Ok((ctx, errs)) => {
            let d = diags_to_json(&errs);
            events.push(json!({"ev": "codegen", "mode": mode, "ndiags": d.len(), "diags": d, "digests": digests.borrow().clone(),
                               "repeated": *repeated.borrow(), "capped": *capped.borrow()}));
            if d.is_empty() && !*repeated.borrow() && !*capped.borrow() { Ok(ctx) } else { Ok(None) }
        }
        Err(p) => {
            events.push(json!({"ev": "codegen", "mode": mode, "ndiags": 0, "diags": [], "digests": digests.borrow().clone(), "repeated": false, "capped": false, "panic": p}));
            Err(p)
        }
    }
}

fn run_one(case: Case) -> Value {
    let mut events: Vec<Value> = vec![json!({"ev": "start"})];
    let c2 = case.clone();
    let parsed = guarded(move || parse_case(&c2));
    let (tree, perr) = match parsed {
        Ok(x) => x,
        Err(p) => return json!({"id": case.id, "end": "panic", "panic": p, "stage": "parse", "events": events}),
    };
    let pd = diags_to_json(&perr);
    events.push(json!({"ev": "parsed", "ndiags": pd.len(), "diags": pd, "tree": tree.is_some()}));
    let tree = match tree {
        Some(t) => t,
        None => return json!({"id": case.id, "end": "done", "panic": null, "stage": "parse", "events": events}),
    };
    // formatting works on any parse tree (the language server formats files with errors elsewhere in the project)
    for name in case.files.keys() {
        if tree.try_get_file(name.as_str()).is_none() {
            continue;
        }
        let t2 = tree.clone();
        let n2 = name.clone();
        match guarded(std::panic::AssertUnwindSafe(move || format(n2.as_str(), t2, FormattingOptions::default()))) {
            Ok(s) => events.push(json!({"ev": "format", "file": name, "len": s.len()})),
            Err(p) => {
                events.push(json!({"ev": "format", "file": name, "panic": p}));
                return json!({"id": case.id, "end": "panic", "panic": p, "stage": "format", "events": events});
            }
        }
    }
    if !perr.is_empty() {
        return json!({"id": case.id, "end": "done", "panic": null, "stage": "parse", "events": events});
    }
    let ctx = match run_codegen(&case, tree.clone(), false, &mut events) {
        Ok(c) => c,
        Err(p) => return json!({"id": case.id, "end": "panic", "panic": p, "stage": "codegen", "events": events}),
    };
    if let Some(ctx) = ctx {
        // the rest of `mos build`: merge the segments into banks (nothing is written), listings, symbol file text
        match guarded(std::panic::AssertUnwindSafe(|| BinaryWriter {}.merge_segments(&ctx))) {
            Ok(Ok(b)) => events.push(json!({"ev": "merge", "banks": b.len(), "ndiags": 0, "diags": []})),
            Ok(Err(e)) => {
                let d = diags_to_json(&e);
                events.push(json!({"ev": "merge", "banks": 0, "ndiags": d.len(), "diags": d}))
            }
            Err(p) => {
                events.push(json!({"ev": "merge", "panic": p}));
                return json!({"id": case.id, "end": "panic", "panic": p, "stage": "merge", "events": events});
            }
        }
        match guarded(std::panic::AssertUnwindSafe(|| to_vice_symbols(ctx.symbols()))) {
            Ok(t) => events.push(json!({"ev": "symbols", "len": t.len()})),
            Err(p) => {
                events.push(json!({"ev": "symbols", "panic": p}));
                return json!({"id": case.id, "end": "panic", "panic": p, "stage": "symbols", "events": events});
            }
        }
        for n in [1usize, 8, 0] {
            match guarded(std::panic::AssertUnwindSafe(|| to_listing(&ctx, n))) {
                Ok(Ok(l)) => events.push(json!({"ev": "listing", "bpl": n, "files": l.len()})),
                Ok(Err(e)) => events.push(json!({"ev": "listing", "bpl": n, "diags": diags_to_json(&e)})),
                Err(p) => {
                    events.push(json!({"ev": "listing", "bpl": n, "panic": p}));
                    return json!({"id": case.id, "end": "panic", "panic": p, "stage": "listing", "events": events});
                }
            }
        }
    }
    if let Err(p) = run_codegen(&case, tree, true, &mut events) {
        return json!({"id": case.id, "end": "panic", "panic": p, "stage": "greedy", "events": events});
    }
    json!({"id": case.id, "end": "done", "panic": null, "stage": "all", "events": events})
}

fn main() {
    let args: Vec<String> = std::env::args().collect();
    install_panic_hook();
    let start: usize = args.get(3).and_then(|s| s.parse().ok()).unwrap_or(0);
    let inp = std::io::BufReader::new(std::fs::File::open(&args[1]).expect("open input"));
    let mut out = std::fs::OpenOptions::new().create(true).append(true).open(&args[2]).expect("open output");
    for (idx, line) in inp.lines().enumerate() {
        let line = line.unwrap();
        if idx < start || line.trim().is_empty() {
            continue;
        }
        let case: Case = serde_json::from_str(&line).expect("case json");
        let id = case.id.clone();
        let (tx, rx) = mpsc::channel();
        std::thread::Builder::new()
            .stack_size(8 << 20)
            .spawn(move || {
                let _ = tx.send(run_one(case));
            })
            .unwrap();
        let v = match rx.recv_timeout(Duration::from_secs(10)) {
            Ok(v) => v,
            Err(mpsc::RecvTimeoutError::Timeout) => json!({"id": id, "end": "hang", "panic": null, "stage": "?", "events": []}),
            Err(mpsc::RecvTimeoutError::Disconnected) => json!({"id": id, "end": "panic", "panic": "worker thread died", "stage": "?", "events": []}),
        };
        writeln!(out, "{}", v).unwrap();
        out.flush().unwrap();
    }
}
