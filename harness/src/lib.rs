//! Shared driver code: runs mos-core on JSON-described cases and records what it did.
//! This crate never decides a property; it renders observations as ndjson for TLC.
use mos_core::codegen::{codegen, CodegenContext, CodegenOptions, SymbolData, SymbolType};
use mos_core::errors::Diagnostics;
use mos_core::io::{to_listing, to_vice_symbols, BinaryWriter};
use mos_core::parser::code_map::CodeMap;
use mos_core::parser::source::InMemoryParsingSource;
use mos_core::parser::{parse, ParseTree};
use serde::{Deserialize, Serialize};
use serde_json::{json, Value};
use std::cell::RefCell;
use std::collections::BTreeMap;
use std::path::Path;
use std::sync::Arc;

thread_local! {
    static LAST_PANIC: RefCell<Option<String>> = RefCell::new(None);
}

/// Install a panic hook that records "message @ file:line" for the panicking thread and stays quiet.
pub fn install_panic_hook() {
    std::panic::set_hook(Box::new(|info| {
        let loc = info
            .location()
            .map(|l| format!("{}:{}", l.file(), l.line()))
            .unwrap_or_else(|| "?".into());
        let msg = if let Some(s) = info.payload().downcast_ref::<&str>() {
            s.to_string()
        } else if let Some(s) = info.payload().downcast_ref::<String>() {
            s.clone()
        } else {
            "<non-string panic>".to_string()
        };
        LAST_PANIC.with(|p| *p.borrow_mut() = Some(format!("{} @ {}", msg, loc)));
    }));
}

pub fn take_panic() -> Option<String> {
    LAST_PANIC.with(|p| p.borrow_mut().take())
}

/// Run `f`, catching panics. Returns Err("message @ file:line") when it panicked.
pub fn guarded<T, F: FnOnce() -> T + std::panic::UnwindSafe>(f: F) -> Result<T, String> {
    match std::panic::catch_unwind(f) {
        Ok(v) => Ok(v),
        Err(_) => Err(take_panic().unwrap_or_else(|| "<unknown panic>".into())),
    }
}

#[derive(Deserialize, Clone, Debug)]
pub struct Case {
    pub id: Value,
    pub files: BTreeMap<String, String>,
    #[serde(default = "default_entry")]
    pub entry: String,
    #[serde(default = "default_pc")]
    pub pc: usize,
    #[serde(default)]
    pub greedy: bool,
    #[serde(default)]
    pub move_macro: bool,
    #[serde(default)]
    pub active_test: Option<String>,
    /// things to record: segments, symbols, vice, srcmap, listing, passes, banks
    #[serde(default)]
    pub want: Vec<String>,
    #[serde(default = "default_bpl")]
    pub bytes_per_line: usize,
    /// stop after this many passes (needs the pass observer hook); 0 = no cap
    #[serde(default)]
    pub max_passes: usize,
}

fn default_entry() -> String {
    "main.asm".into()
}
fn default_pc() -> usize {
    0x2000
}
fn default_bpl() -> usize {
    8
}

#[derive(Serialize, Default, Debug)]
pub struct Obs {
    pub id: Value,
    pub panic: Option<String>,
    pub stage: String,
    pub parse_diags: Vec<Value>,
    pub diags: Vec<Value>,
    pub ok: bool,
    #[serde(skip_serializing_if = "Option::is_none")]
    pub segments: Option<Vec<Value>>,
    #[serde(skip_serializing_if = "Option::is_none")]
    pub symbols: Option<Vec<Value>>,
    #[serde(skip_serializing_if = "Option::is_none")]
    pub vice: Option<String>,
    #[serde(skip_serializing_if = "Option::is_none")]
    pub srcmap: Option<Vec<Value>>,
    #[serde(skip_serializing_if = "Option::is_none")]
    pub listing: Option<BTreeMap<String, String>>,
    #[serde(skip_serializing_if = "Option::is_none")]
    pub listing_err: Option<Vec<Value>>,
    #[serde(skip_serializing_if = "Option::is_none")]
    pub passes: Option<Vec<Value>>,
    #[serde(skip_serializing_if = "Option::is_none")]
    pub banks: Option<Vec<Value>>,
    #[serde(skip_serializing_if = "Option::is_none")]
    pub bank_err: Option<Vec<Value>>,
    pub stopped_by_observer: bool,
    /// the parser's names of the anonymous scopes of the entry file (braces, loops, imports), in post-order
    #[serde(skip_serializing_if = "Option::is_none")]
    pub scopes: Option<Vec<String>>,
    /// the same for every other file of the project, keyed by the file's name relative to the project root
    #[serde(skip_serializing_if = "Option::is_none")]
    pub file_scopes: Option<std::collections::BTreeMap<String, Vec<String>>>,
    pub npasses: usize,
}

pub fn diag_to_json(cm: Option<&CodeMap>, d: &codespan_reporting::diagnostic::Diagnostic<mos_core::parser::code_map::Span>) -> Value {
    let mut v = json!({"msg": d.message, "located": false, "file": "", "line": 0, "col": 0, "eline": 0, "ecol": 0});
    if let (Some(cm), Some(label)) = (cm, d.labels.first()) {
        let sl = cm.look_up_span(label.file_id);
        v["located"] = json!(true);
        v["file"] = json!(sl.file.name());
        v["line"] = json!(sl.begin.line + 1);
        v["col"] = json!(sl.begin.column + 1);
        v["eline"] = json!(sl.end.line + 1);
        v["ecol"] = json!(sl.end.column + 1);
        v["nlines"] = json!(sl.file.num_lines());
    }
    v
}

pub fn diags_to_json(d: &Diagnostics) -> Vec<Value> {
    d.iter().map(|x| diag_to_json(d.code_map(), x)).collect()
}

pub fn parse_case(case: &Case) -> (Option<Arc<ParseTree>>, Diagnostics) {
    let mut src = InMemoryParsingSource::new();
    for (name, text) in &case.files {
        src = src.add(name.clone(), text);
    }
    parse(Path::new(&case.entry), src.into())
}

pub fn symbol_json(path: &str, s: &mos_core::codegen::Symbol) -> Value {
    let ty = match s.ty {
        SymbolType::Label => "label",
        SymbolType::TestCase => "test",
        SymbolType::MacroArgument => "arg",
        SymbolType::Constant => "const",
        SymbolType::Variable => "var",
    };
    let (kind, val): (&str, Value) = match &s.data {
        SymbolData::Number(n) => ("num", json!(n)),
        SymbolData::String(st) => ("str", json!(st)),
        SymbolData::MacroDefinition(_) => ("macro", json!(0)),
        SymbolData::Placeholder => ("placeholder", json!(0)),
    };
    json!({"path": path, "ty": ty, "kind": kind, "val": val,
           "seg": s.segment.as_ref().map(|x| x.to_string()).unwrap_or_default(),
           "pass": s.pass_idx})
}

pub fn symbols_json(ctx: &CodegenContext) -> Vec<Value> {
    let mut all: Vec<(String, Value)> = ctx
        .symbols()
        .all()
        .into_iter()
        .map(|(p, (_, s))| (p.to_string(), symbol_json(&p.to_string(), s)))
        .collect();
    all.sort_by(|a, b| a.0.cmp(&b.0));
    all.into_iter().map(|x| x.1).collect()
}

pub fn segments_json(ctx: &CodegenContext, with_bytes: bool) -> Vec<Value> {
    ctx.segments()
        .iter()
        .map(|(name, seg)| {
            let mut v = json!({
                "name": name.to_string(),
                "start": seg.range().start, "end": seg.range().end,
                "pc": seg.pc().as_usize(),
                "toff": seg.target_offset(),
                "init": seg.options().initial_pc.as_usize(),
                "target": seg.options().target_address.as_usize(),
                "write": seg.options().write,
                "bank": seg.options().bank.as_ref().map(|b| b.to_string()).unwrap_or_default(),
            });
            if with_bytes {
                v["bytes"] = json!(seg.range_data().to_vec());
            }
            v
        })
        .collect()
}

pub fn srcmap_json(ctx: &CodegenContext) -> Vec<Value> {
    let cm = &ctx.tree().code_map;
    ctx.source_map()
        .offsets()
        .iter()
        .map(|o| {
            let sl = cm.look_up_span(o.span);
            json!({"file": sl.file.name(), "line": sl.begin.line + 1, "col": sl.begin.column + 1,
                   "eline": sl.end.line + 1, "ecol": sl.end.column + 1,
                   "lo": o.pc.start, "hi": o.pc.end, "scope": o.scope.index()})
        })
        .collect()
}

/// Assemble one case in-process and record everything asked for.
/// Names the parser gave to the anonymous scopes, children before their parent (renderer glue: lets the driver name the
/// scopes of its own AST without guessing from the symbol table).
pub fn scope_ids(tokens: &[mos_core::parser::Token], out: &mut Vec<String>) {
    use mos_core::parser::Token;
    for t in tokens {
        match t {
            Token::Label { block: Some(b), .. } => scope_ids(&b.inner, out),
            Token::Braces { block, scope } => {
                scope_ids(&block.inner, out);
                out.push(scope.to_string());
            }
            Token::Loop { block, loop_scope, .. } => {
                scope_ids(&block.inner, out);
                out.push(loop_scope.to_string());
            }
            Token::Segment { block: Some(b), .. } => scope_ids(&b.inner, out),
            Token::If { if_, else_, .. } => {
                scope_ids(&if_.inner, out);
                if let Some(e) = else_ {
                    scope_ids(&e.inner, out);
                }
            }
            Token::MacroDefinition { block, .. } => scope_ids(&block.inner, out),
            Token::Import { block, import_scope, .. } => {
                if let Some(b) = block {
                    scope_ids(&b.inner, out);
                }
                out.push(import_scope.to_string());
            }
            _ => {}
        }
    }
}

pub fn run_case(case: &Case) -> Obs {
    let mut obs = Obs {
        id: case.id.clone(),
        stage: "parse".into(),
        ..Default::default()
    };
    let want = |k: &str| case.want.iter().any(|w| w == k);

    let c2 = case.clone();
    let parsed = guarded(move || parse_case(&c2));
    let (tree, perr) = match parsed {
        Ok(x) => x,
        Err(p) => {
            obs.panic = Some(p);
            return obs;
        }
    };
    obs.parse_diags = diags_to_json(&perr);
    if !perr.is_empty() || tree.is_none() {
        return obs;
    }
    let tree = tree.unwrap();
    {
        let mut ids = vec![];
        scope_ids(&tree.main_file().tokens, &mut ids);
        obs.scopes = Some(ids);
        let mut per_file = std::collections::BTreeMap::new();
        for (path, pf) in &tree.files {
            if *path == tree.main_file {
                continue;
            }
            let mut ids = vec![];
            scope_ids(&pf.tokens, &mut ids);
            let name = path.to_string_lossy().replace('\\', "/");
            let name = name.trim_start_matches("/proj/").trim_start_matches("./").trim_start_matches('/').to_string();
            per_file.insert(name, ids);
        }
        obs.file_scopes = Some(per_file);
    }
    obs.stage = "codegen".into();

    let passes: std::rc::Rc<RefCell<Vec<Value>>> = Default::default();
    let stopped: std::rc::Rc<RefCell<bool>> = Default::default();
    let npasses: std::rc::Rc<RefCell<usize>> = Default::default();
    {
        let passes = passes.clone();
        let stopped = stopped.clone();
        let npasses = npasses.clone();
        let want_passes = want("passes");
        let max_passes = case.max_passes;
        mos_core::codegen::verif_hooks::set_pass_observer(Some(Box::new(move |ctx, errs| {
            *npasses.borrow_mut() += 1;
            if want_passes {
                let mut und: Vec<Value> = ctx
                    .verif_undefined()
                    .into_iter()
                    .map(|(scope, id, span)| {
                        let (line, col) = match span {
                            Some(sp) => {
                                let sl = ctx.tree().code_map.look_up_span(sp);
                                (sl.begin.line + 1, sl.begin.column + 1)
                            }
                            None => (0, 0),
                        };
                        json!({"scope": scope, "id": id, "line": line, "col": col})
                    })
                    .collect();
                und.sort_by_key(|v| v.to_string());
                passes.borrow_mut().push(json!({
                    "idx": ctx.verif_pass_idx(),
                    "symbols": symbols_json(ctx),
                    "undefined": und,
                    "errors": diags_to_json(errs),
                    "segments": segments_json(ctx, true),
                }));
            }
            if max_passes > 0 && *npasses.borrow() >= max_passes {
                *stopped.borrow_mut() = true;
                return true;
            }
            false
        })));
    }

    let opts = CodegenOptions {
        pc: case.pc.into(),
        active_test: case.active_test.as_ref().map(|t| t.as_str().into()),
        predefined_constants: Default::default(),
        move_macro_source_map_to_invocation: case.move_macro,
        enable_greedy_analysis: case.greedy,
    };
    let t2 = tree.clone();
    let res = guarded(std::panic::AssertUnwindSafe(move || codegen(t2, opts)));
    mos_core::codegen::verif_hooks::set_pass_observer(None);
    obs.npasses = *npasses.borrow();
    obs.stopped_by_observer = *stopped.borrow();
    if want("passes") {
        obs.passes = Some(passes.borrow().clone());
    }
    let (ctx, errs) = match res {
        Ok(x) => x,
        Err(p) => {
            obs.panic = Some(p);
            return obs;
        }
    };
    obs.diags = diags_to_json(&errs);
    obs.ok = errs.is_empty() && !obs.stopped_by_observer;
    let ctx = match ctx {
        Some(c) => c,
        None => return obs,
    };
    if want("segments") {
        obs.segments = Some(segments_json(&ctx, true));
    }
    if want("symbols") {
        obs.symbols = Some(symbols_json(&ctx));
    }
    if !obs.ok {
        return obs;
    }
    obs.stage = "output".into();
    if want("vice") {
        match guarded(std::panic::AssertUnwindSafe(|| to_vice_symbols(ctx.symbols()))) {
            Ok(v) => obs.vice = Some(v),
            Err(p) => {
                obs.panic = Some(p);
                return obs;
            }
        }
    }
    if want("srcmap") {
        obs.srcmap = Some(srcmap_json(&ctx));
    }
    if want("listing") {
        match guarded(std::panic::AssertUnwindSafe(|| to_listing(&ctx, case.bytes_per_line))) {
            Ok(Ok(l)) => {
                obs.listing = Some(
                    l.into_iter()
                        .map(|(k, v)| (k.to_string_lossy().to_string(), v))
                        .collect(),
                )
            }
            Ok(Err(e)) => obs.listing_err = Some(diags_to_json(&e)),
            Err(p) => {
                obs.panic = Some(p);
                return obs;
            }
        }
    }
    if want("banks") {
        match guarded(std::panic::AssertUnwindSafe(|| BinaryWriter {}.merge_segments(&ctx))) {
            Ok(Ok(banks)) => {
                obs.banks = Some(
                    banks
                        .iter()
                        .map(|b| {
                            json!({"name": b.options().name.to_string(),
                                   "start": b.range().start, "end": b.range().end,
                                   "bytes": b.data().to_vec(),
                                   "filename": b.options().filename.clone().unwrap_or_default(),
                                   "has_filename": b.options().filename.is_some()})
                        })
                        .collect(),
                )
            }
            Ok(Err(e)) => obs.bank_err = Some(diags_to_json(&e)),
            Err(p) => {
                obs.panic = Some(p);
                return obs;
            }
        }
    }
    obs
}

/// Read ndjson cases from `input`, run `f` on each, write ndjson to `output`.
pub fn drive<F: Fn(&Value) -> Value>(input: &str, output: &str, f: F) {
    use std::io::{BufRead, Write};
    let inp = std::io::BufReader::new(std::fs::File::open(input).expect("open input"));
    let mut out = std::io::BufWriter::new(std::fs::File::create(output).expect("create output"));
    for line in inp.lines() {
        let line = line.expect("read");
        if line.trim().is_empty() {
            continue;
        }
        let v: Value = serde_json::from_str(&line).expect("case json");
        let o = f(&v);
        writeln!(out, "{}", serde_json::to_string(&o).unwrap()).unwrap();
    }
    out.flush().unwrap();
}
